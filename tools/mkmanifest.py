#!/usr/bin/env python3
"""Regenerates /verif/MANIFEST.json from the table below (single source of truth) and validates it."""
import json
import os
import subprocess
import sys

ROOT = os.path.dirname(os.path.dirname(os.path.abspath(__file__)))
TEST_CMD = "cd /repo && /venv/bin/python -m pytest -ra -q -p no:cacheprovider --timeout=900 --continue-on-collection-errors"

# id -> (level, technique, text, note, design_ref)
CHECKS = {
 "C19": ("exploration", "TLC enumeration of all programs of spec/Rng.tla with determinism keys + execution in-process (twice, perturbed allocations) and in fresh interpreters under several PYTHONHASHSEED values",
         "every program up to MaxHist calls over manual_seed and the random-consuming API; outputs with equal seeded keys must be bit-identical across programs, runs and processes",
         "seeds / hash seeds / allocation layouts are sampled", "5/C19"),
 "C09": ("model_checking", "TLC case machine spec/Saturation.tla (exact saturated-regime semantics on a magnitude lattice) + replay in both dtypes",
         "every lattice element / row / label / target: outputs and input gradients finite and within single precision of the specification",
         "saturated regime only (gaps 0 or >= 20); gaps in (0,20) at large magnitude not decided", "5/C09"),
 "C14": ("model_checking", "TLC invariant IdentityHolds on spec/Identities.tla (independently written definitions) + differential replay of both implementation forms on every enumerated configuration",
         "polynomial identities model-checked on the spec; fused vs composed implementation forms compared (values and all operand gradients) on every configuration, incl. transcendental pairs, pooling, Neuron, Sequential",
         "common domain of both sides; exact-rational operand patterns", "5/C14"),
 "C15": ("exploration", "TLC case machine spec/Init.tla (exact rational squared scales) + replay observing the generator arguments, plus fixed-seed sample statistics",
         "every initialiser x shape x gain/mode/nonlinearity/slope: documented scale vs arguments handed to NumPy's generator, frame (identity, shape, dtype, requires_grad); distribution shape sampled",
         "statistics are fixed-seed with wide margins (outside TLC)", "5/C15"),
 "C02": ("model_checking", "TLC case machine spec/NNCatalog.tla over spec/ConvGeom.tla (polynomial forms with mechanically derived VJPs; named real functions with spec-fixed structure) + replay of every case; BatchNorm layer histories with pending backward passes (spec/NormDrop.tla)",
         "every nn case of the geometry / shape / mode grids replayed in both dtypes for every requires-grad subset and basis/negative/generic/ones upstream gradients",
         "real functions and their partials interpreted with mpmath; 2-D geometry grid reduced in quick tier", "5/C02"),
 "C06": ("model_checking", "TLC case machine spec/NNCatalog.tla (forward definitions, geometry, acceptance) + replay of every case in three public forms (functional with tuples / ints, layer module), layer-construction grid, BatchNorm layer histories (spec/NormDrop.tla)",
         "forward shape/values and accept/reject for every nn case; 'same'/'valid'/default-stride layer normalisation against ConvGeom.OutLen",
         "MAY cases may raise; all-padding max-pool windows excluded", "5/C06"),
 "C16": ("model_checking", "TLC invariants Adjoint / FoldUnfoldCount on spec/ConvGeom.tla for every enumerated geometry + replay on all conv_tools variants",
         "three im2col, three col2im, extract_windows, place_windows compared with the specification matrices on every case; inner-product adjointness on seeded real data; cover count",
         "integer image ids; geometry grid in evidence", "5/C16"),
 "C18": ("model_checking", "TLC case machine + loader state machine spec/Data.tla; every case / history replayed on split_dataset, DataLoader, one_hot_encode",
         "all (n, fractions, shuffle) splits up to MaxN with floor-rule sizes, partition, pairing, order; all DataLoader histories (iter/next/len/getitem) for every (n, batch size) with and without transform; all label vectors",
         "dyadic fractions; set membership of a split left open", "5/C18"),
 "C20": ("model_checking", "TLC on spec/Trainer.tla (safety + liveness) and TLC trace validation (spec/TrainerTrace.tla) of executions recorded from the real Trainer",
         "every recorded Trainer.fit/test run over the (E, NB, NV, NT, evaluator, callbacks) grid must be a behaviour of the specification; corrupted traces must be rejected; history keys/lengths, epoch-loss mean and Evaluator accuracy compared by the driver",
         "observation through proxies and wrappers outside the repository; one model architecture", "5/C20"),
 "C13": ("model_checking", "TLC on spec/NormDrop.tla (exact rational running statistics; Dropout mask as nondeterministic choice) + replay of every history; the driver follows the spec branch (mask) that explains each Dropout output",
         "all train/eval/set-stats/forward histories up to MaxHist for every BatchNorm constructor option on 2-d/3-d/4-d batches; Dropout forward/backward mask consistency for p in {0,1/2,3/4,1}",
         "normalised value interpreted with mpmath; independence/probability of the mask is a fixed-seed statistical side check", "5/C13"),
 "C08": ("model_checking", "TLC on spec/Optim.tla (exact rational SGD/Adam/AdamW trajectories) + replay of every emitted history on real optimizers",
         "every interleaving of backward/zero_grad/step/freeze up to MaxHist over dyadic hyper-parameter grids; parameter values, storage identity, dtype, shape compared after every call",
         "Adam restricted to rational-square-root behaviours; SGD maximize+weight_decay accepts either documented variant", "5/C08"),
 "C12": ("model_checking", "TLC on spec/Modules.tla (registries, parameters() dedup, mode propagation) + replay of every emitted history on real nn.Module objects",
         "all registration histories up to MaxHist incl. sharing, re-assignment to None/other, Sequential(list|dict); parameters()/submodules()/num_params()/training/requires_grad/grad and Sequential call order compared",
         "acyclic module graphs; bounded histories + TLC -simulate", "5/C12"),
 "C01": ("model_checking", "TLC case machine spec/OpCatalog.tla over spec/TensorAlg.tla (VJP derived from forward definitions) + replay of every case",
         "every (op, arguments, shapes) case within the stated grids is emitted by TLC with the exact expected VJP for basis/negative/generic/ones gradients and replayed in f32 and f64 for every requires-grad subset",
         "rational operand patterns; named real functions interpreted with mpmath; grids in evidence", "5/C01"),
 "C05": ("model_checking", "TLC case machine spec/OpCatalog.tla (forward definitions + acceptance policy) + replay of every case",
         "forward shape/values and accept/reject policy for every case of the grids, all public forms",
         "policy table is part of the spec; zero-size tensors excluded", "5/C05"),
 "C10": ("model_checking", "typing layer of the TLC case machines (OpCatalog, NNCatalog) + replay in both dtypes with cross-dtype upstream gradients; BatchNorm layer histories (dtype of outputs and buffers)",
         "result dtype, .grad dtype/shape for every case; f32 vs f64 agreement",
         "mixed-dtype operands unconstrained", "5/C10"),
 "C11": ("model_checking", "frame conditions of OpCatalog/Autograd specs + byte-level snapshots during replay",
         "operands, upstream gradients and all tensors of replayed behaviours are snapshotted and compared after every call; repeat-determinism; clone/detach storage",
         "mutation observed through public .data/.grad arrays", "5/C11"),
 "C03": ("model_checking", "TLC on spec/Autograd.tla (forward-mode ghost vs reverse sweep, all sweep orders) + replay of every emitted program into the library + TLC trace validation (spec/TapeTrace.tla) of recorded random programs and of the repository's own tests",
         "every program up to the stated bounds is explored by TLC (Accumulate, SweepOnce) and executed by the library; leaf gradients, once-only and order of backward functions compared",
         "integer-valued operands; operator alphabet of the program-level spec; bounds in evidence", "5/C03"),
 "C04": ("model_checking", "TLC on spec/Autograd.tla (ghost accumulator over all histories) + replay of every emitted history",
         "all histories of build/backward(any root)/retain/reset up to MaxHist are replayed; .grad of every tensor compared after every call",
         "bounded histories; deeper ones sampled with TLC -simulate", "5/C04"),
 "C07": ("model_checking", "TLC on spec/Autograd.tla (mode stack with ghost, flag rules) + replay of every emitted behaviour + TLC trace validation (spec/TapeTrace.tla) of recorded random programs (flags, refusals, release rule)",
         "all nestings of no_grad/retain_grads construct/enter/exit (incl. exception), flag toggles, refusals and release rule within bounds, replayed and compared through public probes",
         "LIFO exits; same object not entered twice concurrently; mixed retain modes unconstrained", "5/C07"),
 "C17": ("model_checking", "TLC on spec/Autograd.tla (SweepOnce, SweepTerminates liveness, NoHistory) + behaviour families (chain, ladder, fan, wide) replayed at N up to 5e4 with a deterministic cost measure + weak-reference liveness replay",
         "small instances exhaustively; scale by instantiating spec-checked behaviour families; liveness vs LiveFrom",
         "scale is sampled at fixed N; memory observed via weakrefs after gc", "5/C17"),
}


def main():
    props = [json.loads(l)["id"] for l in open(os.path.join(ROOT, "properties.jsonl"))]
    na_reasons = {}
    nap = os.path.join(ROOT, "tools", "not_applicable.json")
    if os.path.exists(nap):
        na_reasons = json.load(open(nap))
    checks = []
    for pid in props:
        if pid in CHECKS:
            level, tech, text, note, ref = CHECKS[pid]
            checks.append({
                "property_id": pid,
                "quick_cmd": "./vcheck %s --tier quick" % pid,
                "thorough_cmd": "./vcheck %s --tier thorough" % pid,
                "evidence_file": "/verif/evidence/%s.json" % pid,
                "replay_cmd_template": "./vcheck %s --replay {path}" % pid,
                "engine": "tlc+replay",
                "level_claimed": {"category": level, "text": text, "design_ref": "DESIGN.md section " + ref},
                "level_note": note,
                "technique": tech,
            })
    na = [{"property_id": p, "reason": na_reasons.get(p, "check under construction in this round (TLA+ spec + conformance harness not yet committed); will be claimed when built")}
          for p in props if p not in CHECKS]
    hooks_commits = []
    m = {
        "version": 1,
        "setup_cmd": "./tools/setup.sh",
        "hooks": {"guard": "SYNAPGRAD_VERIF",
                  "enable": "no hooks inside /repo: observation from outside (wrapping BackwardFunction.__call__, proxies, pkbar stub on sys.path)",
                  "baseline_off_cmd": TEST_CMD, "source_commits": hooks_commits, "add_only": True},
        "engines": [{"name": "tlc+replay", "path": "/verif/vcheck", "serves_properties": sorted(CHECKS),
                     "kind_free_text": "explicit TLA+ specifications (spec/*.tla) model-checked with TLC; TLC-emitted behaviours/cases replayed into synapgrad; recorded traces validated by TLC"}],
        "checks": checks,
        "not_applicable": na,
        "notes": "All checks: ./vcheck <ID> --tier quick|thorough [--repo PATH] [--replay FILE]; exit 2 = machinery failure (fail closed). Known findings: /verif/known-findings.txt.",
    }
    json.dump(m, open(os.path.join(ROOT, "MANIFEST.json"), "w"), indent=1)
    r = subprocess.run(["python3-vt", "-c", "import json,jsonschema;jsonschema.validate(json.load(open('%s/MANIFEST.json')),json.load(open('/root/.vp/MANIFEST.schema.json')));print('MANIFEST valid')" % ROOT])
    sys.exit(r.returncode)


if __name__ == "__main__":
    main()
