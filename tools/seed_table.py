#!/usr/bin/env python3
"""Regenerates the table of section 10.5 of DESIGN.md from seeded/*/meta.json and seeded/notes.json
(name -> what the row's last column says: which check reports the change, and what had to be strengthened)."""
import json
import os
import re
import sys

ROOT = os.path.dirname(os.path.dirname(os.path.abspath(__file__)))
BEGIN = "| seeded | property | change | needs, to manifest | caught by (quick tier) |"


def cut(s, n):
    s = " ".join(str(s).split()).replace("|", "/")
    return s if len(s) <= n else s[:n]


def main():
    notes = json.load(open(os.path.join(ROOT, "seeded", "notes.json")))
    names = sorted(d for d in os.listdir(os.path.join(ROOT, "seeded")) if os.path.isfile(os.path.join(ROOT, "seeded", d, "meta.json")))
    names.sort(key=lambda n: (n[:3], n[3:]))
    rows = [BEGIN, "|---|---|---|---|---|"]
    for n in names:
        m = json.load(open(os.path.join(ROOT, "seeded", n, "meta.json")))
        caught = [c for c, r in (m.get("checks") or {}).items() if r.get("rc") == 1]
        note = notes.get(n) or (", ".join(caught) if caught else "NOT CAUGHT")
        rows.append("| %s | %s | %s | %s | %s |" % (n, m["property"], cut(m["summary"], 160), cut(m["needs"], 160), note))
    p = os.path.join(ROOT, "DESIGN.md")
    s = open(p).read()
    i = s.index(BEGIN)
    j = s.index("\n\n", i)
    s = s[:i] + "\n".join(rows) + s[j:]
    open(p, "w").write(s)
    print("%d rows" % len(names))


if __name__ == "__main__":
    sys.exit(main())
