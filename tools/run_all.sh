#!/bin/sh
# Runs every check (quick by default) against /repo and reports exit codes; evidence files are rewritten.
# usage: [VCHECK_TIMEOUT=seconds] run_all.sh [tier] [ids...]
tier=${1:-quick}
[ $# -gt 0 ] && shift
ids=${*:-C01 C02 C03 C04 C05 C06 C07 C08 C09 C10 C11 C12 C13 C14 C15 C16 C17 C18 C19 C20}
cd "$(dirname "$0")/.."
for p in $ids; do
  s=$(date +%s)
  ${VCHECK_TIMEOUT:+timeout $VCHECK_TIMEOUT} ./vcheck $p --tier $tier > /var/tmp/vcheck-$tier-$p.log 2>&1
  rc=$?
  e=$(date +%s)
  echo "$p rc=$rc $((e-s))s $(grep -E '^(OK|VIOLATION|MACHINERY)' /var/tmp/vcheck-$tier-$p.log | head -2 | tr '\n' ' ' | cut -c1-150)"
done
