#!/venv/bin/python
"""Kill matrix: applies every seeded change (seeded/<name>/patch.diff) to a scratch worktree of /repo and runs the quick
check of the property it was written against; each must exit 1 with a VIOLATION line.
usage: [KM_OUT=file] tools/seeded_regress.py [name ...]      (scratch worktrees under /var/tmp, removed afterwards)"""
import glob
import json
import os
import subprocess
import sys
import time

ROOT = os.path.dirname(os.path.dirname(os.path.abspath(__file__)))


def sh(cmd, cwd=None):
    p = subprocess.run(cmd, shell=True, cwd=cwd, capture_output=True, text=True)
    return p.returncode, p.stdout + p.stderr


def main():
    names = sys.argv[1:] or sorted(os.path.basename(os.path.dirname(p)) for p in glob.glob(os.path.join(ROOT, "seeded", "*", "meta.json")))
    out = {}
    for name in names:
        meta = json.load(open(os.path.join(ROOT, "seeded", name, "meta.json")))
        pid = meta["property"]
        wt = "/var/tmp/seedwt-%s-%d" % (name, os.getpid())
        rc, o = sh("git -C /repo worktree add -q --detach %s HEAD && git -C %s apply %s" % (wt, wt, os.path.join(ROOT, "seeded", name, "patch.diff")))
        if rc != 0:
            out[name] = "patch does not apply: " + o[-200:]
            print(name, out[name])
            sh("git -C /repo worktree remove --force %s" % wt)
            continue
        t0 = time.time()
        rc, o = sh("./vcheck %s --tier quick --repo %s" % (pid, wt), cwd=ROOT)
        viol = [l for l in o.splitlines() if l.startswith("VIOLATION")]
        out[name] = dict(check=pid, rc=rc, caught=bool(rc == 1 and viol), wall_s=round(time.time() - t0, 1))
        print(name, out[name], flush=True)
        sh("git -C /repo worktree remove --force %s" % wt)
    sh("git -C /repo worktree prune")
    sh("git checkout -- evidence", cwd=ROOT)      # the runs above rewrote evidence files against changed trees
    json.dump(out, open(os.environ.get("KM_OUT") or os.path.join(ROOT, "seeded", "kill-matrix.json"), "w"), indent=1)
    missed = [n for n, v in out.items() if not (isinstance(v, dict) and v["caught"])]
    print("caught %d of %d; missed: %s" % (len(out) - len(missed), len(out), missed))
    sys.exit(1 if missed else 0)


if __name__ == "__main__":
    main()
