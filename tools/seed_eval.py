#!/venv/bin/python
"""Evaluate a seeded change produced by a sub-agent:  tools/seed_eval.py <name> <worktree> <outdir> [check ids...]
 1. the worktree has exactly the patch applied; the repository's test-suite result is unchanged (only test_BCELoss fails)
 2. the demonstration fails on the changed tree and passes on /repo
 3. the named checks (default: the property of the change) are run with --repo <worktree>
Results are stored under /verif/seeded/<name>/."""
import json
import os
import shutil
import subprocess
import sys
import time

ROOT = os.path.dirname(os.path.dirname(os.path.abspath(__file__)))


def sh(cmd, cwd=None, timeout=3600):
    p = subprocess.run(cmd, shell=True, cwd=cwd, capture_output=True, text=True, timeout=timeout)
    return p.returncode, p.stdout + p.stderr


def main():
    name, wt, out = sys.argv[1], sys.argv[2], sys.argv[3]
    checks = sys.argv[4:]
    meta = json.load(open(os.path.join(out, "meta.json")))
    pid = meta.get("property", name[:3])
    checks = checks or [pid]
    dst = os.path.join(ROOT, "seeded", name)
    os.makedirs(dst, exist_ok=True)
    rc, diff = sh("git diff", cwd=wt)
    open(os.path.join(dst, "patch.diff"), "w").write(diff)
    if os.path.abspath(out) != os.path.abspath(dst):
        shutil.copy(os.path.join(out, "demo.py"), os.path.join(dst, "demo.py"))
    res = {"property": pid, "summary": meta.get("summary"), "needs": meta.get("needs"), "files": meta.get("files"), "ran": {}}
    rc, o = sh("/venv/bin/python -m pytest -q -p no:cacheprovider tests 2>&1 | tail -3", cwd=wt)
    res["ran"]["tests_with_change"] = o.strip().splitlines()[-2:]
    ok_tests = "1 failed" in o and "test_BCELoss" in o
    rc1, o1 = sh("/venv/bin/python %s %s" % (os.path.join(dst, "demo.py"), wt), cwd="/tmp")
    rc0, o0 = sh("/venv/bin/python %s /repo" % os.path.join(dst, "demo.py"), cwd="/tmp")
    res["ran"]["demo_changed_rc"] = rc1
    res["ran"]["demo_unchanged_rc"] = rc0
    res["ran"]["demo_changed_tail"] = o1.strip().splitlines()[-3:]
    res["confirmed"] = bool(ok_tests and rc1 != 0 and rc0 == 0)
    res["checks"] = {}
    for c in checks:
        t0 = time.time()
        rc, o = sh("./vcheck %s --tier quick --repo %s" % (c, wt), cwd=ROOT)
        lines = [l for l in o.splitlines() if l.startswith("VIOLATION") or l.startswith("  key=") or l.startswith("OK ") or l.startswith("MACHINERY")]
        res["checks"][c] = {"rc": rc, "wall_s": round(time.time() - t0, 1), "lines": lines[:8]}
    json.dump(res, open(os.path.join(dst, "meta.json"), "w"), indent=1)
    print(json.dumps(res, indent=1))
    # evidence files are rewritten by check runs against the changed tree: restore them from git
    sh("git checkout -- evidence", cwd=ROOT)


if __name__ == "__main__":
    main()
