#!/bin/sh
# Offline setup: nothing to build; verify the toolchain and SANY-parse every specification.
set -e
cd "$(dirname "$0")/../spec"
java -version 2>&1 | head -1
test -f /opt/veriftools/tla/tla2tools.jar
/venv/bin/python -c "import numpy, mpmath, sympy, hypothesis; print('python deps ok')"
OUT="${TMPDIR:-/var/tmp}/verif-sany.$$"
for f in *.tla; do
  java -DTLA-Library="$(pwd)" -cp /opt/veriftools/tla/tla2tools.jar:/opt/veriftools/tla/CommunityModules-deps.jar tla2sany.SANY "$f" > "$OUT" 2>&1 || { cat "$OUT"; rm -f "$OUT"; exit 1; }
  if grep -q -E "Semantic errors|Parse Error|\*\*\* Errors|Fatal errors" "$OUT"; then cat "$OUT"; rm -f "$OUT"; exit 1; fi
done
rm -f "$OUT"
echo "setup ok"
