#!/bin/sh
# Offline setup: nothing to build; verify the toolchain and SANY-parse every specification.
set -e
cd "$(dirname "$0")/.."
java -version 2>&1 | head -1
test -f /opt/veriftools/tla/tla2tools.jar
/venv/bin/python -c "import numpy, mpmath, sympy, hypothesis; print('python deps ok')"
for f in spec/*.tla; do
  java -cp /opt/veriftools/tla/tla2tools.jar:/opt/veriftools/tla/CommunityModules-deps.jar tla2sany.SANY "$f" > /tmp/sany.$$ 2>&1 || { cat /tmp/sany.$$; rm -f /tmp/sany.$$; exit 1; }
  if grep -q -E "Semantic errors|Parse Error|\*\*\* Errors" /tmp/sany.$$; then cat /tmp/sany.$$; rm -f /tmp/sany.$$; exit 1; fi
done
rm -f /tmp/sany.$$
echo "setup ok"
