"""Replay of spec/Ctor.tla cases on the tensor constructors."""
import numpy as np

NPDT = {"none": None, "f32": np.float32, "f64": np.float64}


def check(sg, o):
    c, e = o["c"], o["e"]
    fn, form, shape = c["fn"], c["form"], tuple(c["shape"])
    kw = dict(requires_grad=c["rg"])
    if c["dt"] != "none":
        kw["dtype"] = NPDT[c["dt"]]
    key = "ctor:%s:%s:dtype=%s" % (fn, form, c["dt"])
    try:
        if fn in ("empty", "ones", "zeros", "rand", "randn"):
            f = getattr(sg, fn)
            t = f(*shape, **kw) if form == "varargs" else f(shape, **kw) if form == "tuple" else f(list(shape), **kw)
        elif fn in ("ones_like", "zeros_like"):
            t = getattr(sg, fn)(sg.Tensor(np.full(shape, 7.0, dtype=np.float32)), **kw)
        elif fn == "arange":
            t = sg.arange(*c["iv"], **kw)
        elif fn == "eye":
            t = sg.eye(shape[0], **kw)
        elif fn == "normal":
            t = sg.normal(1.0, 2.0, *shape, **kw)
        elif fn == "randint":
            t = sg.randint(0, 5, shape, **kw)
        elif fn == "tensor":
            n = int(np.prod(shape))
            data = np.array([(-i if i % 2 == 0 else i) for i in range(1, n + 1)]).reshape(shape).tolist()
            t = sg.tensor(data, **kw)
        else:
            raise AssertionError(fn)
        raised = None
    except AssertionError:
        raise
    except Exception as ex:  # noqa: BLE001
        raised = type(ex).__name__ + ": " + str(ex)[:80]
    out = []
    if e["err"]:
        if raised is None:
            out.append((key + ":not-refused", "%s%s must raise %s" % (fn, c, e["err"])))
        return out
    if raised is not None:
        out.append((key + ":raised", "%s(%s form, shape %s, %s) raised %s" % (fn, form, shape, kw, raised)))
        return out
    if tuple(t.shape) != tuple(e["shape"]):
        out.append((key + ":shape", "%s(%s form) shape %s, specification %s" % (fn, form, t.shape, tuple(e["shape"]))))
        return out
    want_dt = {"f32": np.float32, "f64": np.float64}.get(e["dt"])
    if want_dt is not None and t.data.dtype != want_dt:
        out.append((key + ":dtype", "%s(dtype=%s) has dtype %s" % (fn, c["dt"], t.data.dtype)))
    if e["dt"] == "int" and t.data.dtype.kind != "i":
        out.append((key + ":dtype", "%s has dtype %s, expected an integer dtype" % (fn, t.data.dtype)))
    if bool(t.requires_grad) != bool(c["rg"]):
        out.append((key + ":requires_grad", "%s(requires_grad=%s).requires_grad = %s" % (fn, c["rg"], t.requires_grad)))
    if e["vals"]:
        want = np.array(e["vals"][0], dtype=np.float64).reshape(tuple(e["shape"]))
        if not np.array_equal(t.data.astype(np.float64), want):
            out.append((key + ":values", "%s values %s, specification %s" % (fn, t.data.tolist(), want.tolist())))
    return out
