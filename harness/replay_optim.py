"""Replay behaviours of spec/Optim.tla on real synapgrad optimizers."""
import json
from fractions import Fraction

import numpy as np

from .vlib import repo

P0 = [[3, -2], [-1, 4], [5, 5]]
BASE = [[2, -2], [1, -2], [3, 3]]


def qf(q):
    return float(Fraction(q[0], q[1]))


def hyper_tag(kind, h):
    tags = [kind]
    for k in ("mom", "damp", "wd"):
        if k in h and h[k][0] != 0:
            tags.append(k)
    for k in ("nesterov", "maximize"):
        if h.get(k):
            tags.append(k)
    return "+".join(tags)


class OptimReplayer:
    def __init__(self, sg, dtype="float64"):
        self.sg = sg
        self.dtype = np.dtype(dtype)

    def run(self, hist, expected, consts):
        sg = self.sg
        div = []
        P = [sg.Tensor(np.array(v, dtype=self.dtype), requires_grad=True) for v in P0]
        arrs = [t.data for t in P]
        opt = None
        tag = "?"
        rtol = 1e-9 if self.dtype == np.float64 else 2e-4
        for i, call in enumerate(hist):
            a = call["a"]
            try:
                with repo.quiet(), np.errstate(all="ignore"):
                    if a == "ctor":
                        h = call["h"]
                        tag = hyper_tag(call["kind"], h)
                        if call.get("fz"):
                            P[1].requires_grad = False          # frozen when the optimizer is built
                        if call["kind"] == "sgd":
                            opt = sg.optim.SGD([P[0], P[1]], lr=qf(h["lr"]), momentum=qf(h["mom"]), dampening=qf(h["damp"]),
                                               weight_decay=qf(h["wd"]), nesterov=h["nesterov"], maximize=h["maximize"])
                        else:
                            cls = sg.optim.Adam if call["kind"] == "adam" else sg.optim.AdamW
                            opt = cls([P[0], P[1]], lr=qf(h["lr"]), betas=(qf(h["b1"]), qf(h["b2"])), eps=qf(h["eps"]),
                                      weight_decay=qf(h["wd"]), maximize=h["maximize"])
                    elif a == "bw":
                        loss = None
                        for k in range(3):
                            c = sg.Tensor(np.array([call["s"] * b for b in BASE[k]], dtype=self.dtype))
                            term = (P[k] * c).sum()
                            loss = term if loss is None else loss + term
                        loss.backward()
                    elif a == "zero_grad":
                        opt.zero_grad()
                    elif a == "freeze":
                        P[call["k"] - 1].requires_grad = False
                    elif a == "unfreeze":
                        P[call["k"] - 1].requires_grad = True
                    elif a == "step":
                        opt.step()
                    else:
                        raise AssertionError(a)
            except AssertionError:
                raise
            except Exception as e:  # noqa: BLE001
                ctx = self.context(hist, i)
                div.append(("error", "%s:%s:raised:%s:%s" % (tag, a, type(e).__name__, ctx), "step %d %s raised %s: %s" % (i, json.dumps(call), type(e).__name__, str(e)[:100])))
                break
            obs = expected(i + 1)
            if obs is None:
                break
            ctx = self.context(hist, i)
            n0 = len(div)
            for k in range(3):
                t = P[k]
                want = np.array([qf(q) for q in obs["p"][k]])
                if t.data is not arrs[k]:
                    div.append(("inplace", "%s:%s:storage-replaced" % (tag, a), "parameter %d: .data is no longer the array the model holds" % (k + 1)))
                    arrs[k] = t.data
                if t.data.dtype != self.dtype or t.data.shape != (2,):
                    div.append(("inplace", "%s:%s:dtype-shape" % (tag, a), "parameter %d: dtype/shape changed to %s %s" % (k + 1, t.data.dtype, t.data.shape)))
                if not np.allclose(t.data.astype(np.float64), want, rtol=rtol, atol=rtol):
                    who = "not-given" if k == 2 else ("frozen" if not obs["rg"][k] else "active")
                    div.append(("trajectory", "%s:%s:%s:%s" % (tag, a, who, ctx), "parameter %d after %s: %s, specification %s (history %s)" % (
                        k + 1, a, t.data.tolist(), want.tolist(), [c["a"] + (str(c.get("s", "")) if c["a"] == "bw" else "") for c in hist[:i + 1]])))
                with repo.quiet():
                    gr = t.grad
                eg = obs["g"][k]
                if not eg:
                    if gr is not None and np.any(gr.data != 0):
                        div.append(("grads", "%s:%s:grad-present" % (tag, a), "parameter %d has gradient %s, specification none" % (k + 1, gr.data.tolist())))
                else:
                    wantg = np.array([qf(q) for q in eg[0]])
                    have = np.zeros(2) if gr is None else gr.data.astype(np.float64)
                    if not np.allclose(have, wantg, rtol=rtol, atol=rtol):
                        div.append(("grads", "%s:%s:grad-value:%s" % (tag, a, ctx), "parameter %d gradient %s, specification %s" % (k + 1, have.tolist(), wantg.tolist())))
            if len(div) > n0:
                break
        return div

    @staticmethod
    def context(hist, i):
        pre = hist[:i + 1]
        tags = []
        nstep = sum(1 for c in pre if c["a"] == "step")
        tags.append("step%d" % min(nstep, 3))
        # gradient accumulated over several backward calls since the last reset / without reset between steps
        bw_since = 0
        for c in pre:
            if c["a"] == "zero_grad":
                bw_since = 0
            elif c["a"] == "bw":
                bw_since += 1
        if bw_since > 1:
            tags.append("accum")
        if any(c["a"] == "freeze" for c in pre):
            tags.append("frozen")
        if not any(c["a"] == "bw" for c in pre):
            tags.append("nograd")
        return ",".join(tags)
