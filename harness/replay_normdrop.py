"""Replay behaviours of spec/NormDrop.tla on real BatchNorm / Dropout layers."""
import itertools
import json
from fractions import Fraction

import mpmath as mp
import numpy as np

from .vlib import repo

mp.mp.dps = 40


def qf(q):
    return float(Fraction(q[0], q[1]))


def prefix_key(hist):
    return json.dumps(hist, sort_keys=True)


class BNReplayer:
    def __init__(self, sg, dtype="float32", x_rg=True, no_grad=False):
        self.sg = sg
        self.dtype = np.dtype(dtype)
        self.x_rg = x_rg            # does the data batch require grad?
        self.no_grad = no_grad      # forward passes run inside the caller's no_grad block (e.g. recalibrating statistics)

    def run(self, hist, expected, consts):
        sg, nn = self.sg, self.sg.nn
        div = []
        mom = None if not consts["Momentum"] else qf(consts["Momentum"][0])
        eps = qf(consts.get("Eps", [1, 100000]))
        shapes = {len(b["shape"]) for b in consts["Batches"]}
        cls = nn.BatchNorm2d if 4 in shapes else nn.BatchNorm1d
        tag = "bn:mom=%s,affine=%s,track=%s" % ("none" if mom is None else "ema", consts["Affine"], consts["Track"])
        try:
            bn = cls(consts["NC"], eps=eps, momentum=mom, affine=consts["Affine"], track_running_stats=consts["Track"], dtype=self.dtype)
            if consts["Affine"]:
                bn.weight.data = np.array([qf(q) for q in consts["Gamma"]], dtype=self.dtype)
                bn.bias.data = np.array([qf(q) for q in consts["Beta"]], dtype=self.dtype)
        except Exception as e:  # noqa: BLE001 - a layer that cannot be built / has no scale and shift although affine=True
            return [("error", tag + ":construct:" + type(e).__name__, "%s(affine=%s, track_running_stats=%s): constructing the layer / setting its weight and bias raised %s: %s" % (
                cls.__name__, consts["Affine"], consts["Track"], type(e).__name__, str(e)[:100]))]
        root = nn.Sequential(nn.Sequential(bn)) if consts.get("Nested") else None
        pend = []           # (input tensor, output tensor) of every forward, for later backward passes
        for i, call in enumerate(hist):
            a = call["a"]
            y = None
            try:
                with repo.quiet():
                    if a == "bwd":
                        xk, yk = pend[call["k"] - 1]
                        gk = np.array([(-(j + 1) if j % 2 == 0 else (j + 1)) for j in range(1, yk.data.size + 1)], dtype=self.dtype).reshape(yk.data.shape)
                        xk.zero_()
                        yk.backward(sg.Tensor(gk))
                    elif a in ("train", "eval"):
                        getattr(root if call.get("on") == "root" else bn, a)()
                    elif a == "setstats":
                        bn.running_mean.data = np.array([qf(q) for q in call["rm"]], dtype=self.dtype)
                        bn.running_var.data = np.array([qf(q) for q in call["rv"]], dtype=self.dtype)
                    elif a == "fwd":
                        b = consts["Batches"][call["b"] - 1]
                        x = sg.Tensor(np.array(b["v"], dtype=self.dtype).reshape(tuple(b["shape"])), requires_grad=self.x_rg)
                        snap = x.data.tobytes()
                        if self.no_grad:
                            with sg.no_grad():
                                y = bn(x)
                        else:
                            y = bn(x)
                        pend.append((x, y))
                        if not bn.training:
                            y2 = bn(x)
                            if y2.data.tobytes() != y.data.tobytes():
                                div.append(("determinism", tag + ":eval-not-deterministic", "two eval-mode calls on the same input differ"))
                        if x.data.tobytes() != snap:
                            div.append(("determinism", tag + ":input-mutated", "forward modified its input"))
                    else:
                        raise AssertionError(a)
            except AssertionError:
                raise
            except Exception as e:  # noqa: BLE001
                div.append(("error", "%s:%s:raised:%s" % (tag, a, type(e).__name__), "step %d %s raised %s: %s" % (i, json.dumps(call), type(e).__name__, str(e)[:100])))
                break
            obs = expected(i + 1)
            mode = "train" if obs["training"] else "eval"
            n0 = len(div)
            if bool(bn.training) != obs["training"]:
                div.append(("mode", tag + ":training-flag", "training = %s, specification %s" % (bn.training, obs["training"])))
            if obs["rm"]:
                for nm, arr, want in (("running_mean", bn.running_mean, obs["rm"][0]), ("running_var", bn.running_var, obs["rv"][0])):
                    w = np.array([qf(q) for q in want])
                    if arr is None or not np.allclose(arr.data.astype(np.float64), w, rtol=2e-5, atol=2e-6):
                        div.append(("stats", "%s:%s:%s:after-%s" % (tag, nm, mode, a), "%s = %s, specification %s (history %s)" % (
                            nm, None if arr is None else arr.data.tolist(), w.tolist(), [c["a"] for c in hist[:i + 1]])))
                if int(bn.num_batches_tracked) != obs["nbt"]:
                    div.append(("stats", "%s:nbt:%s" % (tag, mode), "num_batches_tracked = %s, specification %s" % (bn.num_batches_tracked, obs["nbt"])))
            else:
                if bn.running_mean is not None or bn.running_var is not None:
                    div.append(("stats", tag + ":untracked-has-stats", "running statistics exist although track_running_stats=False"))
            if a == "fwd" and y is not None and y.data.dtype != self.dtype:
                div.append(("dtype", "%s:output-dtype:%s:%s" % (tag, mode, "after-training" if obs["nbt"] > 0 else "fresh"),
                            "output dtype %s for %s input (history %s)" % (y.data.dtype, self.dtype, [c["a"] for c in hist[:i + 1]])))
            if obs["rm"] and (bn.running_mean.data.dtype != self.dtype or bn.running_var.data.dtype != self.dtype):
                div.append(("dtype", "%s:stats-dtype" % tag, "running statistics dtype %s / %s for a %s layer" % (bn.running_mean.data.dtype, bn.running_var.data.dtype, self.dtype)))
            if a == "fwd" and y is not None:
                want = np.array([float((mp.mpf(e["x"]) - mp.mpf(e["m"][0]) / e["m"][1]) / mp.sqrt(mp.mpf(e["v"][0]) / e["v"][1] + mp.mpf(eps))
                                       * (mp.mpf(e["ga"][0]) / e["ga"][1]) + mp.mpf(e["be"][0]) / e["be"][1]) for e in obs["out"][0]])
                got = y.data.astype(np.float64).reshape(-1)
                if got.shape != want.shape or not np.allclose(got, want, rtol=5e-5, atol=5e-5):
                    div.append(("output", "%s:output:%s" % (tag, mode), "output %s, specification %s" % (got.tolist(), want.tolist())))
            if a == "bwd" and obs["bwout"]:
                rec = obs["bwout"][0]
                xk, yk = pend[call["k"] - 1]
                want = self.expected_input_grad(rec, eps)
                got = xk.grad.data.astype(np.float64).reshape(-1)
                if got.shape != want.shape or not np.allclose(got, want, rtol=2e-4, atol=2e-4):
                    later = sum(1 for c in hist[:i] if c["a"] == "fwd") > call["k"]
                    div.append(("input_grad", "%s:input-grad:%s:%s" % (tag, rec["mode"], "after-later-forward" if later else "direct"),
                                "input gradient of forward #%d: %s, specification %s (history %s)" % (call["k"], got.tolist(), want.tolist(), [c["a"] for c in hist[:i + 1]])))
            # (no early stop: each property's check picks the divergence kinds it is responsible for, and a later
            #  symptom - e.g. a wrong output after the running statistics went wrong - must still be seen)
        return div

    @staticmethod
    def expected_input_grad(rec, eps):
        """VJP of the forward pass described by `rec` (mode, per-element x / mean / var / gamma) for the generic
        upstream gradient -2, 3, -4, ...; batch mode differentiates the batch statistics as well (mpmath)."""
        from .replay_nn import fn_partials
        el = rec["el"]
        n = len(el)
        g = [mp.mpf(-(j + 1) if j % 2 == 0 else (j + 1)) for j in range(1, n + 1)]
        if rec["mode"] == "stats":
            return np.array([float(g[i] * (mp.mpf(e["ga"][0]) / e["ga"][1]) / mp.sqrt(mp.mpf(e["v"][0]) / e["v"][1] + mp.mpf(eps))) for i, e in enumerate(el)])
        shape = rec["shape"]
        sp = int(np.prod(shape[2:])) if len(shape) > 2 else 1
        C = shape[1]
        out = np.zeros(n)
        for c in range(C):
            idx = [i for i in range(n) if (i // sp) % C == c]
            vals = [mp.mpf(el[i]["x"]) for i in idx]
            ga = mp.mpf(el[idx[0]]["ga"][0]) / el[idx[0]]["ga"][1]
            for pos, j in enumerate(idx):
                parts = fn_partials("bn_batch", [[pos, 1], [1, int(round(1 / eps))]], vals)
                for q, i in enumerate(idx):
                    out[i] += float(g[j] * ga) * parts[q][0]
        return out


class DropReplayer:
    """The mask is the implementation's choice: at every training-mode forward the driver looks for
    the specification branch (mask m) whose output equals the implementation's."""

    def __init__(self, sg, dtype=np.float32, p_int=False):
        self.sg = sg
        self.dtype = np.dtype(dtype)
        self.p_int = p_int          # p = 0 / 1 given as Python ints

    def run(self, hist, expected_by_key, consts):
        sg, nn = self.sg, self.sg.nn
        div = []
        p = qf(consts["PDrop"])
        if self.p_int and p == int(p):
            p = int(p)
        layer = nn.Dropout(p=p)
        root = nn.Sequential(nn.Sequential(layer)) if consts.get("Nested") else None
        tag = "drop:p=%s" % Fraction(consts["PDrop"][0], consts["PDrop"][1])
        path = []
        x = y = None
        passes = []          # (input, output) of every forward pass: each keeps its own graph
        for i, call in enumerate(hist):
            a = call["a"]
            if a in ("train", "eval"):
                getattr(root if call.get("on") == "root" else layer, a)()
                path.append(call)
                obs = expected_by_key(prefix_key(path))
                if obs is None:
                    break
                if bool(layer.training) != obs["training"]:
                    div.append(("mode", tag + ":training-flag", "training flag"))
                    break
            elif a == "fwd":
                xv = consts["Inputs"][call["x"] - 1]
                x = sg.Tensor(np.array(xv, dtype=self.dtype), requires_grad=True)
                with repo.quiet():
                    y = layer(x)
                if y.data.dtype != self.dtype:
                    div.append(("dtype", "%s:out-dtype:%s:%s" % (tag, self.dtype, "train" if layer.training else "eval"),
                                "Dropout(p=%r) on %s input returned %s" % (p, self.dtype, y.data.dtype)))
                got = y.data.astype(np.float64)
                match = None
                for m in itertools.product((0, 1), repeat=len(xv)):
                    cand = dict(call, m=list(m))
                    obs = expected_by_key(prefix_key(path + [cand]))
                    if obs is None:
                        continue
                    want = np.array([qf(q) for q in obs["out"][0]])
                    if got.shape == want.shape and np.allclose(got, want, rtol=1e-6, atol=1e-6):
                        match = cand
                        break
                mode = "train" if layer.training else "eval"
                if match is None:
                    div.append(("mask", "%s:no-mask-explains-output:%s" % (tag, mode), "input %s -> output %s is not x*m/(1-p) for any admissible mask m (%s mode)" % (xv, got.tolist(), mode)))
                    break
                path.append(match)
                passes.append([x, y])
            elif a == "bwd":
                k = call.get("k", len(passes))
                if k < 1 or k > len(passes) or passes[k - 1][1] is None:
                    break
                xk, yk = passes[k - 1]
                gv = consts["GradsIn"][call["g"] - 1]
                if len(gv) != xk.data.shape[0] or not yk.requires_grad:
                    if not yk.requires_grad:
                        div.append(("mask", tag + ":output-not-tracked", "output of Dropout does not require grad"))
                    break
                xk.zero_()
                with repo.quiet():
                    yk.backward(sg.Tensor(np.array(gv, dtype=self.dtype)))
                if xk.grad is not None and xk.grad.data.dtype != self.dtype:
                    div.append(("dtype", "%s:grad-dtype:%s" % (tag, self.dtype), "input gradient of Dropout(p=%r) on %s input is %s" % (p, self.dtype, xk.grad.data.dtype)))
                path.append(call)
                obs = expected_by_key(prefix_key(path))
                if obs is None:
                    break
                want = np.array([qf(q) for q in obs["out"][0]])
                got = xk.grad.data.astype(np.float64)
                if not np.allclose(got, want, rtol=1e-6, atol=1e-6):
                    div.append(("mask", "%s:backward-other-mask:%s:%s" % (tag, "train" if layer.training else "eval", "last-pass" if k == len(passes) else "earlier-pass"),
                                "input gradient of forward pass %d of %d: %s, specification (the mask of that pass) %s" % (k, len(passes), got.tolist(), want.tolist())))
                    break
                passes[k - 1][1] = None  # that graph has been used
        return div


def dropout_statistics(sg, seed):
    """Outside TLC: fraction of zeros within 6 sigma of p, survivors scaled by exactly 1/(1-p)."""
    out = []
    rng_state = np.random.get_state()
    np.random.seed(seed)
    try:
        for p in (0.1, 0.3, 0.5, 0.9):
            n = 100000
            layer = sg.nn.Dropout(p=p)
            x = sg.Tensor(np.full((n,), 3.0, dtype=np.float32))
            y = layer(x).data
            zeros = float(np.mean(y == 0))
            sigma = (p * (1 - p) / n) ** 0.5
            surv = y[y != 0]
            ok_scale = bool(np.allclose(surv, 3.0 / (1 - p), rtol=1e-6))
            z = (y == 0).astype(np.float64)
            corr = float(np.corrcoef(z[:-1], z[1:])[0, 1])
            out.append(dict(p=p, zero_fraction=zeros, sigma=sigma, scale_ok=ok_scale, lag1_corr=corr,
                            ok=abs(zeros - p) < 6 * sigma and ok_scale and abs(corr) < 0.02))
    finally:
        np.random.set_state(rng_state)
    return out
