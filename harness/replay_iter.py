"""Replay behaviours of spec/Iter.tla: several live iterators over one tensor."""
import json

import numpy as np

from .vlib import repo


class IterReplayer:
    def __init__(self, sg):
        self.sg = sg

    def run(self, hist, expected, consts):
        sg = self.sg
        n = consts["N"]
        t = sg.Tensor(np.arange(n * 2, dtype=np.float32).reshape(n, 2) + 1)
        its = []
        div = []
        for i, call in enumerate(hist):
            a = call["a"]
            got = None
            try:
                with repo.quiet():
                    if a == "iter":
                        its.append(iter(t))
                        got = {"t": "iter"}
                    elif a == "next":
                        try:
                            got = {"t": "item", "v": next(its[call["c"] - 1])}
                        except StopIteration:
                            got = {"t": "stop"}
                    elif a == "len":
                        got = {"t": "len", "v": len(t)}
                    elif a == "getitem":
                        got = {"t": "item", "v": t[call["i"]]}
            except Exception as e:  # noqa: BLE001
                div.append(("iter", "iter:%s:raised:%s" % (a, type(e).__name__), "step %d %s raised %s: %s" % (i, json.dumps(call), type(e).__name__, str(e)[:80])))
                break
            exp = expected(i + 1)["last"]
            live = sum(1 for c in hist[:i + 1] if c["a"] == "iter")
            ctx = "%s:cursors=%d" % (a, min(live, 3))
            if exp["t"] != got["t"]:
                div.append(("iter", "iter:kind:" + ctx, "step %d (%s): got %s, specification %s (history %s)" % (i, a, got["t"], exp, [c["a"] + str(c.get("c", "")) for c in hist[:i + 1]])))
                break
            if exp["t"] == "len" and got["v"] != exp["v"]:
                div.append(("iter", "iter:len", "len(t) = %s, specification %s" % (got["v"], exp["v"])))
                break
            if exp["t"] == "item":
                want = t.data[exp["i"]]
                v = got["v"]
                if not hasattr(v, "data") or v.data.shape != want.shape or not np.array_equal(v.data, want):
                    div.append(("iter", "iter:value:" + ctx, "step %d (%s): yielded %s, specification t[%d] = %s (history %s)" % (
                        i, a, getattr(v, "data", v), exp["i"], want.tolist(), [c["a"] + str(c.get("c", "")) for c in hist[:i + 1]])))
                    break
        return div
