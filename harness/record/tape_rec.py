"""Recording executions of the real library as traces for TapeTrace.tla.

Everything is wrapped from outside the repository for the duration of a recording: Tensor.__init__
(creation, with the `children` argument and the resulting requires_grad), the grad_fn setter,
the requires_grad setter, retain_grad, Tensor.backward (begin / end / refusal) and
BackwardFunction.__call__.  Tensor identities are replaced by consecutive integers."""
import contextlib
import weakref

from ..vlib import repo


class TapeRecorder:
    def __init__(self, sg):
        self.sg = sg
        self.tm = repo.tensor_module()
        self.events = []
        self.ids = {}            # id(tensor) -> number   (entries removed when the tensor dies)
        self.fn_owner = {}       # id(BackwardFunction) -> tensor number
        self.next = 1
        self.depth = 0           # nested backward (none in practice) / re-entrancy guard
        self.keep = []           # strong refs are NOT kept: liveness must not be disturbed

    def num(self, t, create=False):
        k = id(t)
        n = self.ids.get(k)
        if n is None and create:
            n = self.next
            self.next += 1
            self.ids[k] = n
            try:
                weakref.finalize(t, self.ids.pop, k, None)
            except TypeError:
                pass
        return n

    @contextlib.contextmanager
    def recording(self):
        sg, T = self.sg, self.sg.Tensor
        BF = sg.functional.BackwardFunction
        rec = self
        o_init, o_bw, o_ret, o_call = T.__init__, T.backward, T.retain_grad, BF.__call__
        o_gf, o_rg = T.__dict__["grad_fn"], T.__dict__["requires_grad"]

        def init(self_, data, children=(), operation=None, requires_grad=False, *a, **k):
            o_init(self_, data, children, operation, requires_grad, *a, **k)
            if isinstance(data, T):
                # copy constructor (Parameter(tensor)): a new object sharing the state of `data`; it is a new leaf of the tape
                n = rec.num(self_, create=True)
                rec.events.append(dict(e="new", id=n, ch=[], rg=bool(self_.requires_grad), gm=bool(getattr(rec.tm, "gradient__", True))))
                return
            n = rec.num(self_, create=True)
            ch = [rec.num(c) for c in (children or ())]
            gm = bool(getattr(rec.tm, "gradient__", True))
            rec.events.append(dict(e="new", id=n, ch=[c for c in ch if c is not None], rg=bool(self_.requires_grad), gm=gm))

        def set_gf(self_, fn):
            o_gf.fset(self_, fn)
            n = rec.num(self_)
            if fn is not None and n is not None:
                rec.fn_owner[id(fn)] = n
                rec.events.append(dict(e="fn", id=n))

        def set_rg(self_, v):
            o_rg.fset(self_, v)
            n = rec.num(self_)
            if n is not None:
                rec.events.append(dict(e="setrg", id=n, b=bool(v)))

        def retain(self_):
            o_ret(self_)
            n = rec.num(self_)
            if n is not None:
                rec.events.append(dict(e="retain", id=n))

        def call(self_):
            n = rec.fn_owner.get(id(self_))
            if n is not None and rec.depth > 0:
                rec.events.append(dict(e="bw_fn", id=n))
            return o_call(self_)

        def backward(self_, grad=None):
            n = rec.num(self_)
            if n is None:
                return o_bw(self_, grad)
            if not self_.requires_grad:
                try:
                    return o_bw(self_, grad)
                finally:
                    rec.events.append(dict(e="bw_refused", root=n))
            rec.events.append(dict(e="bw_begin", root=n))
            rec.depth += 1
            reach = rec.reach(self_)
            try:
                return o_bw(self_, grad)
            finally:
                rec.depth -= 1
                wg = [rec.num(t) for t in reach if t._grad is not None and rec.num(t) is not None]
                rec.events.append(dict(e="bw_end", withgrad=sorted(wg), rm=bool(getattr(rec.tm, "retain_grads__", False))))

        T.__init__, T.backward, T.retain_grad, BF.__call__ = init, backward, retain, call
        T.grad_fn = property(o_gf.fget, set_gf)
        T.requires_grad = property(o_rg.fget, set_rg)
        try:
            yield self
        finally:
            T.__init__, T.backward, T.retain_grad, BF.__call__ = o_init, o_bw, o_ret, o_call
            T.grad_fn, T.requires_grad = o_gf, o_rg

    @staticmethod
    def reach(root):
        seen, out, stack = set(), [], [root]
        while stack:
            t = stack.pop()
            if id(t) in seen:
                continue
            seen.add(id(t))
            out.append(t)
            stack.extend(t._children)
        return out
