"""Child process: runs tests of the repository under the tape recorder, one trace per test.
usage: python tape_pytest.py <repo> <out.json> <test ids...>"""
import json
import os
import sys

HERE = os.path.dirname(os.path.dirname(os.path.dirname(os.path.abspath(__file__))))
sys.path.insert(0, HERE)


def main():
    repo_path, out = sys.argv[1], sys.argv[2]
    tests = sys.argv[3:]
    from harness.vlib import repo
    sg = repo.load(repo_path)
    from harness.record.tape_rec import TapeRecorder
    import pytest
    traces = {}

    class Plugin:
        @pytest.hookimpl(hookwrapper=True)
        def pytest_runtest_call(self, item):
            rec = TapeRecorder(sg)
            with rec.recording():
                outcome = yield
            traces[item.nodeid] = dict(events=rec.events, passed=outcome.excinfo is None)

    os.chdir(repo_path)
    rc = pytest.main(["-q", "-p", "no:cacheprovider", "-x", "--no-header", "-W", "ignore"] + tests, plugins=[Plugin()])
    json.dump(dict(rc=int(rc), traces=traces), open(out, "w"))


if __name__ == "__main__":
    main()
