"""Recording real Trainer.fit / Trainer.test runs as traces for TrainerTrace.tla.

All observation is from outside: proxies for model / optimizer / engine / criterion, a wrapper around
Tensor.backward installed for the duration of the run, and the progress-bar object (pkbar.Kbar) whose
.add() the Trainer calls exactly once at the end of every epoch.  After every event the recorder logs
cheap scalar state: model.training, the gradient mode (probed through the public API), a version
counter of the parameters and one of the BatchNorm running statistics (bumped when their bytes change).
"""
import hashlib
import sys

import numpy as np


class Recorder:
    def __init__(self, sg, model):
        self.sg = sg
        self.model = model
        self.ev = []
        self.losses = []          # per-batch loss values in call order, with the phase flag
        self.pv = 0
        self.sv = 0
        self._ph = self._phash()
        self._sh = self._shash()
        self.P = sg.Tensor(np.array(1.0, dtype=np.float32), requires_grad=True)
        self.trainer = None

    def _phash(self):
        h = hashlib.sha1()
        for p in self.model.parameters():
            h.update(p.data.tobytes())
        return h.hexdigest()

    def _shash(self):
        h = hashlib.sha1()
        stack = [self.model]
        while stack:
            m = stack.pop()
            for attr in ("running_mean", "running_var"):
                t = getattr(m, attr, None)
                if t is not None and hasattr(t, "data"):
                    h.update(np.asarray(t.data).tobytes())
            if hasattr(m, "num_batches_tracked"):
                h.update(str(m.num_batches_tracked).encode())
            stack.extend(m.submodules())
        return h.hexdigest()

    def gmode(self):
        return bool((self.P * self.P).requires_grad)

    def log(self, e, **extra):
        ph, sh = self._phash(), self._shash()
        if ph != self._ph:
            self.pv += 1
            self._ph = ph
        if sh != self._sh:
            self.sv += 1
            self._sh = sh
        rec = dict(e=e, tr=bool(self.model.training), gm=self.gmode(), pv=self.pv, sv=self.sv)
        rec.update(extra)
        self.ev.append(rec)


class ModelProxy:
    def __init__(self, model, rec):
        object.__setattr__(self, "_m", model)
        object.__setattr__(self, "_r", rec)

    def train(self):
        r = self._m.train()
        self._r.log("train")
        return r

    def eval(self):
        r = self._m.eval()
        self._r.log("eval")
        return r

    def __call__(self, *a, **k):
        out = self._m(*a, **k)
        self._r.log("forward")
        return out

    def __getattr__(self, name):
        return getattr(self._m, name)


class OptProxy:
    def __init__(self, opt, rec):
        self._o, self._r = opt, rec

    def zero_grad(self):
        self._o.zero_grad()
        self._r.log("zero_grad")

    def step(self):
        self._o.step()
        self._r.log("step")

    def __getattr__(self, name):
        return getattr(self._o, name)


class _Ctx:
    def __init__(self, ctx, rec):
        self._c, self._r = ctx, rec

    def __enter__(self):
        r = self._c.__enter__()
        self._r.log("ng_enter")
        return r

    def __exit__(self, *a):
        r = self._c.__exit__(*a)
        self._r.log("ng_exit")
        return r


class EngineProxy:
    def __init__(self, sg, rec):
        self._sg, self._r = sg, rec

    def no_grad(self):
        return _Ctx(self._sg.no_grad(), self._r)

    def __getattr__(self, name):
        return getattr(self._sg, name)


class CriterionProxy:
    def __init__(self, crit, rec):
        self._c, self._r = crit, rec

    def __call__(self, y_pred, y_true):
        loss = self._c(y_pred, y_true)
        self._r.losses.append((bool(self._r.model.training), float(np.asarray(loss.data).reshape(-1)[0])))
        return loss


def run_trainer(sg, E, NB, NV, NT, evaluator_mode, callbacks, seed, do_fit=True, do_test=True, batch=4, ambient=None, loader_kind="list", fits=1):
    """Runs a real Trainer on a small model with BatchNorm and Dropout. Returns (trace, info).
    ambient: None | "test_in_no_grad" (the caller runs test() inside a no_grad block of its own: event `ambient`
    before and after) | "ctor_in_no_grad" (the Trainer object is built and compiled inside a no_grad block that is
    left before fit(): no event - building a Trainer is not an action of the specification).
    loader_kind: "list" (lists of batches) | "dataloader" (the library's DataLoader over arrays) | "dataloader_peeked"
    (the same, after the caller looked at a sample batch of every loader with next(iter(loader)) and left a `for`
    loop over the training loader early): len(train_loader) batches per epoch all the same."""
    import pkbar
    nn = sg.nn
    from synapgrad.nn.utils.train import Trainer, Evaluator
    rng = np.random.RandomState(seed)
    sg.manual_seed(seed)
    K = 3
    model = nn.Sequential(nn.Linear(3, 4), nn.BatchNorm1d(4), nn.ReLU(), nn.Dropout(0.5), nn.Linear(4, K))
    if seed % 2 == 1:
        model.eval()          # the mode the model is in before fit() must not matter
    rec = Recorder(sg, model)

    def loader(n):
        out = []
        for j in range(n):
            # loader_kind "list_uneven": batches of different sizes (a short last batch, user-supplied loaders)
            bsz = batch if loader_kind != "list_uneven" else (batch + 3 if j == 0 else 2 if j == n - 1 else batch)
            x = sg.Tensor(rng.randn(bsz, 3).astype(np.float32))
            y = sg.Tensor(rng.randint(0, K, size=(bsz,)).astype(np.int64))
            out.append((x, y))
        return out
    if loader_kind in ("list", "list_uneven"):
        train_loader, val_loader, test_loader = loader(NB), (loader(NV) if NV > 0 else None), loader(NT)
    else:
        from synapgrad.nn.utils.data import DataLoader, DataLoaderCallback

        class ToTensor(DataLoaderCallback):
            def __call__(self, data_loader, X_batch, y_batch):
                return sg.Tensor(X_batch), sg.Tensor(y_batch)

        def dl(n):
            m = n * batch + (batch - 1)          # a last, incomplete batch is dropped: len() == n
            return DataLoader(rng.randn(m, 3).astype(np.float32), rng.randint(0, K, size=(m,)).astype(np.int64), batch, transform=ToTensor())
        train_loader, val_loader, test_loader = dl(NB), (dl(NV) if NV > 0 else None), dl(NT)
        assert len(train_loader) == NB and len(test_loader) == NT
        if loader_kind == "dataloader_peeked":
            for ld in (train_loader, val_loader, test_loader):
                if ld is not None:
                    next(iter(ld))
            for _ in train_loader:
                break
    opt = sg.optim.SGD(model.parameters(), lr=0.1)
    crit = nn.CrossEntropyLoss()
    import contextlib
    with (sg.no_grad() if ambient == "ctor_in_no_grad" else contextlib.nullcontext()):
        trainer = Trainer(ModelProxy(model, rec), EngineProxy(sg, rec))
        if evaluator_mode == "custom":
            # user metrics next to the built-in accuracy: one computed per epoch, one per step
            evaluator = Evaluator(epoch_callback=lambda yt, yp: [("error_rate", float((yt != yp).mean()))],
                                  step_callback=lambda yt, yp: [("step_errors", int((yt != yp).sum()))], accuracy=True, mode=Evaluator.MULTI_CLASS)
        else:
            evaluator = Evaluator(accuracy=True, mode=Evaluator.MULTI_CLASS) if evaluator_mode else None
        trainer.compile(CriterionProxy(crit, rec), OptProxy(opt, rec), evaluator)
    rec.trainer = trainer
    trace = dict(cfg=dict(E=E, NB=NB, NV=NV, NT=NT), tr0=bool(model.training), fit=bool(do_fit), ev=rec.ev)
    info = dict(E=E, NB=NB, NV=NV, NT=NT, evaluator=(evaluator_mode if evaluator_mode == "custom" else bool(evaluator_mode)), callbacks=callbacks, seed=seed, ambient=ambient, do_fit=do_fit, loader_kind=loader_kind, fits=fits)

    # hooks that live outside the repository: Tensor.backward wrapper and the progress bar
    orig_bw = sg.Tensor.backward
    orig_add = pkbar.Kbar.add

    def bw(self, *a, **k):
        r = orig_bw(self, *a, **k)
        rec.log("backward")
        return r

    def add(self, *a, **k):
        r = orig_add(self, *a, **k)
        h = trainer.history
        rec.log("epoch_end", hl=len(h.get("loss", [])))
        return r
    sg.Tensor.backward = bw
    pkbar.Kbar.add = add
    cb_calls = []
    try:
        if do_fit:
            kw = {}
            if callbacks == "flip":
                # callbacks that leave the model in the "wrong" mode (e.g. an evaluation pass in on_train_epoch)
                kw = dict(on_train_epoch=lambda m, l: (cb_calls.append("t"), m.eval()), on_validation_epoch=lambda m, l: (cb_calls.append("v"), m.train()))
            elif callbacks:
                kw = dict(on_train_epoch=lambda m, l: cb_calls.append("t"), on_validation_epoch=lambda m, l: cb_calls.append("v"))
            for _fit in range(fits):
                # (a Trainer may be fitted again: every fit() returns the history of ITS epochs)
                del rec.losses[:]
                del cb_calls[:]
                hist = trainer.fit(train_loader, E, validation_loader=val_loader, **kw)
                lens = [len(v) for v in hist.values()] or [0]
                rec.log("fit_end", hmin=min(lens), hmax=max(lens))
            info["history_keys"] = sorted(hist.keys())
            info["history"] = {k: [float(x) for x in v] for k, v in hist.items()}
            info["losses"] = list(rec.losses)
            info["cb_calls"] = "".join(cb_calls)
        if do_test:
            old = sys.stdout
            outer = sg.no_grad() if ambient == "test_in_no_grad" else None
            if outer is not None:
                outer.__enter__()
                rec.log("ambient")
            try:
                import io
                sys.stdout = io.StringIO()
                y_pred, y_true = trainer.test(test_loader)
            finally:
                sys.stdout = old
            rec.log("test_end")
            if outer is not None:
                outer.__exit__(None, None, None)
                rec.log("ambient")
            info["test_shapes"] = [list(np.shape(y_pred)), list(np.shape(y_true))]
    finally:
        sg.Tensor.backward = orig_bw
        pkbar.Kbar.add = orig_add
    return trace, info
