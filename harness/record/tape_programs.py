"""Seeded random programs over a wide slice of the public API (tensor ops, nn ops, layers, contexts,
retain_grad, detach, several backward calls), executed under the tape recorder."""
import numpy as np

from ..vlib import repo
from .tape_rec import TapeRecorder


def random_program(sg, rng, steps):
    F = sg.nn.functional
    pool = []

    def leaf(shape, rg):
        t = sg.Tensor(rng.randn(*shape).astype(np.float32), requires_grad=rg)
        pool.append(t)
        return t
    for _ in range(3):
        leaf((2, 3), bool(rng.rand() < 0.7))
    leaf((2, 1, 4, 4), True)          # an image batch for the convolution / pooling / batch-norm slice of the API
    conv = sg.nn.Conv2d(1, 2, 2)
    bn = sg.nn.BatchNorm2d(2)
    ctx = None
    for _ in range(steps):
        r = rng.rand()
        a = pool[rng.randint(len(pool))]
        b = pool[rng.randint(len(pool))]
        try:
            with repo.quiet(), np.errstate(all="ignore"):
                if r < 0.05 and ctx is None:
                    ctx = sg.no_grad() if rng.rand() < 0.6 else sg.retain_grads()
                    ctx.__enter__()
                    continue
                if r < 0.10 and ctx is not None:
                    ctx.__exit__(None, None, None)
                    ctx = None
                    continue
                if r < 0.16:
                    if a.requires_grad:
                        a.retain_grad()
                    continue
                if r < 0.20:
                    pool.append(a.detach())
                    continue
                if r < 0.30:
                    roots = [t for t in pool if t.requires_grad]
                    if roots:
                        t = roots[rng.randint(len(roots))]
                        t.backward(sg.Tensor(np.asarray(rng.randn(*t.shape), dtype=np.float32)))
                    else:
                        try:
                            a.backward()
                        except RuntimeError:
                            pass
                    continue
                k = rng.randint(22)
                if a.shape == b.shape and k < 4:
                    out = [a + b, a * b, a - b, a / (b * b + 1.0)][k]
                elif k == 4 and a.ndim == 2 and b.ndim == 2 and a.shape[1] == b.shape[0]:
                    out = a @ b
                elif k == 5 and a.ndim == 2:
                    out = a.transpose(0, 1)
                elif k == 6:
                    out = a.sum(0) if a.ndim else a
                elif k == 7:
                    out = F.relu(a)
                elif k == 8 and a.ndim == 2:
                    out = F.softmax(a, 1)
                elif k == 9 and a.ndim >= 1 and a.shape[0] > 1:
                    out = a[1]
                elif k == 10 and a.shape == b.shape and a.ndim >= 1:
                    out = sg.concat([a, b], 0)
                elif k == 11:
                    out = a.reshape((-1,))
                elif k == 12 and a.ndim == 2:
                    out = sg.unbind(a, 0)[0]
                elif k == 13:
                    out = F.tanh(a) * 2.0
                elif k == 14 and a.ndim == 2 and a.shape[1] == 3:
                    out = sg.nn.Linear(3, 2)(a)
                elif k == 15:
                    out = a.mean()
                elif k == 16 and a.ndim == 4 and a.shape[1] == 1 and a.shape[2] >= 2 and a.shape[3] >= 2:
                    out = conv(a)
                elif k == 17 and a.ndim == 4 and a.shape[2] >= 2 and a.shape[3] >= 2:
                    out = F.max_pool2d(a, 2, 1) if rng.rand() < 0.5 else F.avg_pool2d(a, (2, 1))
                elif k == 18 and a.ndim == 4 and a.shape[1] == 2:
                    out = bn(a)
                elif k == 19 and a.ndim == 2:
                    out = sg.nn.CrossEntropyLoss()(a, sg.Tensor(np.zeros(a.shape[0], dtype=np.int64)))
                elif k == 20 and a.shape == b.shape:
                    out = sg.nn.MSELoss(reduction="sum")(a, b)
                elif k == 21 and a.ndim == 4:
                    out = a.flatten(1, -1)
                else:
                    out = a * 1.5
                pool.append(out)
                if len(pool) > 12:
                    pool.pop(rng.randint(3, len(pool) - 1))
        except (ValueError, RuntimeError, IndexError, TypeError):
            continue
    if ctx is not None:
        ctx.__exit__(None, None, None)


def record_programs(sg, n, seed, steps=30):
    traces = []
    for i in range(n):
        rng = np.random.RandomState(seed * 1000 + i)
        rec = TapeRecorder(sg)
        with rec.recording():
            random_program(sg, rng, steps)
        traces.append(rec.events)
    return traces
