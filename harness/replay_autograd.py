"""Replay behaviours of spec/Autograd.tla into the real library and compare the projected state
after every call with the specification's observation (spec -> code conformance).

A behaviour is the `hist` of the specification: a list of call records.  The expected observation
after the i-th call is the `obs` the specification emitted for the prefix of length i.
Divergences are returned as (kind, key, message) so that each property's check can pick the kinds
it is responsible for.
"""
import json

import numpy as np

from .vlib import repo

KINDS = ("live", "leaf_grad", "interior_grad", "flags", "error", "mode", "value", "g_mutated", "grad_dtype", "grad_shape",
         "order", "once", "storage")


class Recorder:
    """Wraps BackwardFunction.__call__ from outside (the property text itself sanctions this)."""

    def __init__(self, sg):
        self.sg = sg
        self.cls = sg.functional.BackwardFunction
        self.calls = []
        self.active = False
        if not getattr(self.cls, "_verif_wrapped", False):
            orig = self.cls.__call__
            rec = self

            def wrapped(fn_self, *a, **k):
                if Recorder.current is not None and Recorder.current.active:
                    Recorder.current.calls.append(id(fn_self))
                return orig(fn_self, *a, **k)
            self.cls.__call__ = wrapped
            self.cls._verif_wrapped = True
        Recorder.current = self

    current = None


def prefix_key(hist):
    return json.dumps(hist, sort_keys=True)


class Replayer:
    rg_route = "setter"      # how `setrg` is issued: the requires_grad setter, or Module.freeze() / unfreeze() ("module")

    def __init__(self, sg, dtype=np.float32, gdtype=None):
        self.sg = sg
        self.dtype = np.dtype(dtype)
        self.gdtype = np.dtype(gdtype) if gdtype is not None else self.dtype
        self.rec = Recorder(sg)
        self.tm = repo.tensor_module()
        # a source that requires grad, created while the library is in its initial modes
        self.P = sg.Tensor(np.array(1.0, dtype=np.float32), requires_grad=True)
        if not self.P.requires_grad:
            raise RuntimeError("probe tensor does not require grad: library not in its initial gradient mode")

    # ---- helpers ---------------------------------------------------------------------------
    def _np(self, val, vec, dt):
        d = self.dtype if dt == "f" else np.dtype(np.int32)
        a = np.array(val if vec else val[0], dtype=d)
        return a

    def reset_globals(self, ctxs=(), entered=()):
        """Leave every context still entered (LIFO), then make sure the library is back in its
        initial modes; the probe - public API only - has the last word (fail closed)."""
        for c in reversed(list(entered)):
            try:
                ctxs[c - 1].__exit__(None, None, None)
            except Exception:
                pass
        if hasattr(self.tm, "gradient__"):
            self.tm.gradient__ = True
        if hasattr(self.tm, "retain_grads__"):
            self.tm.retain_grads__ = False
        gm, rm = self.probe_modes()
        if gm is not True or rm is not False:
            raise RuntimeError("cannot bring the library back to its initial modes (gm=%s rm=%s)" % (gm, rm))

    def probe_modes(self):
        sg = self.sg
        with repo.quiet():
            p = self.P
            b = p * p
            gm = bool(b.requires_grad)
            rm = None
            if gm:
                c = b * p
                c.backward()
                rm = b.grad is not None
                p.zero_()
        return gm, rm

    # ---- one behaviour -----------------------------------------------------------------------
    def run(self, hist, expected, init_leaves, leaf_vals, live_check=False):
        """hist: list of call records; expected(i) -> obs after i calls (i = 0..len(hist)).
        Returns list of divergences (kind, key, message)."""
        sg = self.sg
        div = []
        self.reset_globals()
        nodes = []          # impl tensors by node id - 1
        snaps = []          # bytes of data at creation
        fnmap = {}          # id(grad_fn) -> node id
        ctxs = []
        entered = []
        gkeep = []          # (tensor, snapshot bytes) of every upstream gradient handed to backward
        nleaf = 0

        def add_node(t):
            nodes.append(t)
            snaps.append((t.data.tobytes(), t.data.shape, t.data.dtype))
            if t.grad_fn is not None:
                fnmap[id(t.grad_fn)] = len(nodes)

        for il in init_leaves:
            v0 = leaf_vals[nleaf]
            nleaf += 1
            val = [v0, v0 + 1] if il["vec"] else [v0]
            t = sg.nn.Parameter(sg.Tensor(self._np(val, il["vec"], "f"), requires_grad=il["rg"]))
            add_node(t)
        self.compare(expected(0), nodes, snaps, gkeep, div, "init", hist[:0])
        for i, call in enumerate(hist):
            a = call["a"]
            raised = ""
            try:
                with repo.quiet():
                    if a == "leaf":
                        t = sg.nn.Parameter(sg.Tensor(self._np(call["val"], call["vec"], call["dt"]), requires_grad=call["rg"]))
                        add_node(t)
                    elif a == "op":
                        ch = [nodes[c - 1] for c in call["ch"]]
                        op = call["op"]
                        if op == "add":
                            out = [ch[0] + ch[1]]
                        elif op == "mul":
                            out = [ch[0] * ch[1]]
                        elif op == "sub":
                            out = [ch[0] - ch[1]]
                        elif op == "neg":
                            out = [-ch[0]]
                        elif op == "sq":
                            out = [ch[0] ** 2]
                        elif op == "clone":
                            out = [ch[0].clone()]
                            if np.shares_memory(out[0].data, ch[0].data):
                                div.append(("storage", "storage:clone", "clone() shares storage with its source"))
                        elif op == "sum":
                            out = [ch[0].sum()]
                        elif op == "idx":
                            out = [ch[0][call["k"] - 1]]
                        elif op == "vmax":
                            out = [ch[0].max() if len(nodes) % 2 else sg.max(ch[0], None)]
                        elif op == "gather":
                            ix = [[0, 0], [1, 1], [1, 0]][call["k"] - 1]
                            # three public spellings of an integer-sequence index
                            form = (len(nodes) + call["k"]) % 3
                            out = [ch[0][ix] if form == 0 else ch[0][np.array(ix)] if form == 1 else ch[0][(ix,)]]
                        elif op == "stack":
                            out = [sg.stack([ch[0], ch[1]])]
                        elif op == "unbind":
                            out = list(sg.unbind(ch[0]))
                        else:
                            raise AssertionError("unknown op " + op)
                        for o in out:
                            add_node(o)
                    elif a == "copyleaf":
                        src = nodes[call["t"] - 1]
                        add_node(sg.nn.Parameter(src) if (len(nodes) + call["t"]) % 2 else sg.Tensor(src))
                    elif a == "setrg":
                        tgt = nodes[call["t"] - 1]
                        if self.rg_route == "module" and isinstance(tgt, sg.nn.Parameter):
                            # the other public route to the flag: the parameter sits on a module that is (un)frozen
                            holder = sg.nn.Module()
                            holder.p = tgt
                            (holder.unfreeze if call["b"] else holder.freeze)()
                        else:
                            tgt.requires_grad = call["b"]
                    elif a == "retain":
                        nodes[call["t"] - 1].retain_grad()
                    elif a == "detach":
                        add_node(nodes[call["t"] - 1].detach())
                        if np.shares_memory(nodes[-1].data, nodes[call["t"] - 1].data):
                            div.append(("storage", "storage:detach", "detach() shares storage with its source"))
                    elif a == "zero":
                        nodes[call["t"] - 1].zero_()
                    elif a == "zeroset":
                        # parameters = the float leaves created so far, registered on a real Module / given to a real optimizer
                        params = [t for t in nodes if isinstance(t, sg.nn.Parameter) and t.data.dtype.kind == "f"]
                        if call["kind"] == "module":
                            m = sg.nn.Module()
                            for j, p in enumerate(params):
                                setattr(m, "p%d" % j, p)
                            m.zero_grad()
                        else:
                            sg.optim.SGD(params, lr=0.5).zero_grad()
                    elif a == "ctxbuild":
                        ctxs.append(sg.no_grad() if call["kind"] == "ng" else sg.retain_grads())
                    elif a == "ctxenter":
                        ctxs[call["c"] - 1].__enter__()
                        entered.append(call["c"])
                    elif a == "ctxexit":
                        entered.remove(call["c"])
                        if call["exc"]:
                            e = ValueError("boom")
                            ctxs[call["c"] - 1].__exit__(ValueError, e, None)
                        else:
                            ctxs[call["c"] - 1].__exit__(None, None, None)
                    elif a == "bw":
                        root = nodes[call["root"] - 1]
                        g = call["g"]
                        gt = None
                        if g:
                            gt = sg.Tensor(np.array(g if root.data.ndim == 1 else g[0], dtype=self.gdtype))
                            gkeep.append((gt, gt.data.tobytes()))
                        self.rec.calls = []
                        self.rec.active = True
                        try:
                            if gt is None:
                                root.backward()
                            else:
                                root.backward(gt)
                        finally:
                            self.rec.active = False
                    else:
                        raise AssertionError("unknown action " + a)
            except (RuntimeError, ValueError, TypeError, AssertionError, IndexError, AttributeError) as e:
                if isinstance(e, AssertionError) and str(e).startswith("unknown"):
                    raise
                raised = type(e).__name__ + ": " + str(e)[:120]
            ctxt = self.context(hist, i)
            if call["err"]:
                if not raised:
                    div.append(("error", "%s:not-refused:%s" % (a, ctxt), "step %d %s: the call must be refused (%s) but returned normally" % (i, json.dumps(call), call["err"])))
                    break      # the implementation's state now has no counterpart in the specification
            else:
                if raised:
                    div.append(("error", "%s:raised:%s:%s" % (a, raised.split(":")[0], ctxt), "step %d %s: raised %s" % (i, json.dumps(call), raised)))
                    break
            if a == "bw" and not call["err"]:
                self.check_order(call, fnmap, div, i, ctxt)
            n0 = len(div)
            self.compare(expected(i + 1), nodes, snaps, gkeep, div, ctxt, hist[:i + 1])
            if len(div) > n0:
                break          # later divergences would only be consequences of this one
        t = out = ch = root = gt = o = m = params = p = e = None   # no stray strong references in this frame
        if live_check and not div and nodes:
            self.liveness(expected(len(hist)), nodes, div)
        nodes = None
        self.reset_globals(ctxs, entered)
        return div

    def liveness(self, obs, nodes, div):
        """C17: hold only the last tensor; everything the specification does not keep alive must die."""
        import gc
        import weakref
        exp = obs["nodes"]
        keep = len(nodes)
        live = {keep}
        frontier = [keep]
        while frontier:
            n = frontier.pop()
            for c in exp[n - 1]["hold"]:
                if c not in live:
                    live.add(c)
                    frontier.append(c)
        refs = [weakref.ref(t) for t in nodes]
        held = nodes[-1]
        del nodes[:]
        gc.collect()
        alive = {i + 1 for i, r in enumerate(refs) if r() is not None}
        if not alive <= live:
            div.append(("live", "live:leak", "holding only tensor %d keeps tensors %s alive; the specification allows %s" % (
                keep, sorted(alive - live), sorted(live))))
        del held

    # a short, stable description of where in a history a divergence appeared (fingerprint class)
    @staticmethod
    def context(hist, i):
        call = hist[i]
        a = call["a"]
        prev_bw = sum(1 for c in hist[:i] if c["a"] == "bw" and not c["err"])
        tags = [a]
        if a == "op":
            tags.append(call["op"])
        if a == "bw":
            tags.append("nth=%d" % (prev_bw + 1) if prev_bw < 2 else "nth>=3")
        if any(c["a"] == "retain" for c in hist[:i]):
            tags.append("retained")
        if any(c["a"] == "ctxenter" for c in hist[:i + 1]):
            tags.append("ctx")
        return "/".join(tags)

    def check_order(self, call, fnmap, div, i, ctxt):
        """Each backward function of a tensor of the program must run exactly once, after those of all
        its consumers.  Functions that belong to hidden intermediates of composite operators (a - b is
        a + (b * -1)) have no node in the specification: they may run, but at most once each."""
        fns = set(call["fns"])
        calls = self.rec.calls
        if not calls and fns:
            return    # the implementation does not route through BackwardFunction.__call__: order not observable
        if len(set(calls)) != len(calls):
            div.append(("once", "once:dup:" + ctxt, "step %d: a backward function was invoked more than once in one backward call" % i))
            return
        known = [fnmap[c] for c in calls if c in fnmap]
        if sorted(known) != sorted(fns):
            div.append(("once", "once:set:" + ctxt, "step %d: backward functions of nodes %s invoked, expected each of %s exactly once" % (i, known, sorted(fns))))
            return
        pos = {n: j for j, n in enumerate(known)}
        for m, c in call["edges"]:
            if pos[m] > pos[c]:
                div.append(("order", "order:" + ctxt, "step %d: backward function of node %d ran before that of its consumer %d (order %s)" % (i, c, m, known)))
                return

    def compare(self, obs, nodes, snaps, gkeep, div, ctxt, hist):
        exp = obs["nodes"]
        if len(exp) != len(nodes):
            div.append(("flags", "nodecount:" + ctxt, "number of tensors %d, specification %d" % (len(nodes), len(exp))))
            return
        for n, (e, t) in enumerate(zip(exp, nodes), start=1):
            with repo.quiet():
                rg, leaf, fn = bool(t.requires_grad), bool(t.is_leaf), t.grad_fn is not None
                g = t.grad
            if (rg, leaf, fn) != (e["rg"], e["leaf"], e["fn"]):
                div.append(("flags", "flags:" + ctxt, "node %d: (requires_grad, is_leaf, has grad_fn) = %s, specification %s" % (n, (rg, leaf, fn), (e["rg"], e["leaf"], e["fn"]))))
            # values (C05-ish) and frame condition on data (C11)
            want = np.array(e["v"] if e["vec"] else e["v"][0], dtype=np.float64)
            if t.data.shape != want.shape or not np.array_equal(t.data.astype(np.float64), want):
                kind = "value"
                div.append((kind, "value:" + ctxt, "node %d: data %s, specification %s" % (n, t.data.tolist(), want.tolist())))
            b, shp, dt = snaps[n - 1]
            if t.data.tobytes() != b or t.data.shape != shp or t.data.dtype != dt:
                div.append(("value", "mutated:" + ctxt, "node %d: data changed since creation" % n))
            # gradient buffer
            gm = e["g"]
            is_src = e["rg"] and not e["fn"]
            kind = "leaf_grad" if is_src else "interior_grad"
            tt = gm["t"]
            if tt == "none":
                if g is not None:
                    div.append((kind, "%s:present:%s" % (kind, ctxt), "node %d: .grad is %s, specification: None" % (n, g.data.tolist())))
            elif tt == "zero":
                if g is not None and np.any(g.data != 0):
                    div.append((kind, "%s:notzero:%s" % (kind, ctxt), "node %d: .grad is %s after a reset" % (n, g.data.tolist())))
            elif tt in ("val", "any"):
                if g is None:
                    div.append((kind, "%s:missing:%s" % (kind, ctxt), "node %d: .grad is None, specification: %s" % (n, gm)))
                else:
                    if g.data.shape != t.data.shape:
                        div.append(("grad_shape", "gradshape:" + ctxt, "node %d: .grad shape %s, tensor shape %s" % (n, g.data.shape, t.data.shape)))
                    elif tt == "val":
                        wantg = np.array(gm["v"] if e["vec"] else gm["v"][0], dtype=np.float64)
                        if not np.allclose(g.data.astype(np.float64), wantg, rtol=1e-6, atol=1e-6):
                            div.append((kind, "%s:value:%s" % (kind, ctxt), "node %d: .grad %s, specification %s" % (n, g.data.tolist(), wantg.tolist())))
                    if g.data.dtype != t.data.dtype:
                        div.append(("grad_dtype", "graddtype:" + ("src" if is_src else "interior") + ":" + ctxt, "node %d: .grad dtype %s, tensor dtype %s" % (n, g.data.dtype, t.data.dtype)))
        for (gt, b) in gkeep:
            if gt.data.tobytes() != b:
                div.append(("g_mutated", "g_mutated:" + ctxt, "an upstream gradient tensor supplied by the caller was modified"))
                break
        gm_, rm_ = self.probe_modes()
        if gm_ != obs["gm"]:
            div.append(("mode", "gmode:" + ctxt, "gradient mode observed %s, specification %s" % (gm_, obs["gm"])))
        if rm_ is not None and rm_ != obs["rm"]:
            div.append(("mode", "rmode:" + ctxt, "retain-all mode observed %s, specification %s" % (rm_, obs["rm"])))
