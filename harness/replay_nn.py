"""Replay of spec/NNCatalog.tla cases: nn functional ops, layer modules, loss modules.

"rgen" cases: the specification gives, per output element, a linear combination of named real
functions applied to referenced operand elements; value and partial derivatives are obtained here
from the textbook definition with mpmath (mp.diff), never from the library's closed forms."""
from fractions import Fraction

import mpmath as mp
import numpy as np

from .vlib import repo
from . import replay_catalog as RC

mp.mp.dps = 30
ALPHA = mp.mpf("1.6732632423543772848170429916717")
SCALE = mp.mpf("1.0507009873554804934193349852946")


def q2m(q):
    return mp.mpf(q[0]) / q[1]


def _softmax(v, pos):
    m = max(v)
    e = [mp.exp(x - m) for x in v]
    return e[pos] / mp.fsum(e)


def _logsoftmax(v, pos):
    m = max(v)
    return v[pos] - m - mp.log(mp.fsum(mp.exp(x - m) for x in v))


def _bn_batch(v, pos, eps):
    n = len(v)
    mean = mp.fsum(v) / n
    var = mp.fsum((x - mean) ** 2 for x in v) / n
    return (v[pos] - mean) / mp.sqrt(var + eps)


def fn_eval(fn, par, v):
    """value of the named function at argument vector v (list of mpf); par: list of rationals"""
    if fn == "relu":
        return max(v[0], mp.mpf(0))
    if fn == "leaky_relu":
        s = q2m(par[0])
        return v[0] if v[0] > 0 else s * v[0]
    if fn == "selu":
        return SCALE * (max(v[0], 0) + min(0, ALPHA * (mp.exp(v[0]) - 1)))
    if fn == "tanh":
        return mp.tanh(v[0])
    if fn == "sigmoid":
        return 1 / (1 + mp.exp(-v[0]))
    if fn == "softmax":
        return _softmax(v, int(par[0][0]))
    if fn == "log_softmax":
        return _logsoftmax(v, int(par[0][0]))
    if fn == "ce":
        return -_logsoftmax(v, int(par[0][0]))
    if fn == "bce":
        p, t = v
        return -(t * mp.log(p) + (1 - t) * mp.log(1 - p))
    if fn == "bcelogits":
        x, t = v
        p = 1 / (1 + mp.exp(-x))
        return -(t * mp.log(p) + (1 - t) * mp.log(1 - p))
    if fn == "bn_batch":
        return _bn_batch(v, int(par[0][0]), q2m(par[1]))
    if fn == "bn_batch_affine":
        return _bn_batch(v[:-2], int(par[0][0]), q2m(par[1])) * v[-2] + v[-1]
    if fn == "bn_stats":
        return (v[0] - q2m(par[1])) / mp.sqrt(q2m(par[2]) + q2m(par[0]))
    if fn == "bn_stats_affine":
        return (v[0] - q2m(par[1])) / mp.sqrt(q2m(par[2]) + q2m(par[0])) * v[1] + v[2]
    raise AssertionError("unknown real function " + fn)


KINKED = {"relu": 0, "leaky_relu": 0, "selu": 0}


def fn_partials(fn, par, v):
    """list over arguments of (dlo, dhi): the interval of valid partial derivatives (a point unless at a kink)"""
    out = []
    for q in range(len(v)):
        if fn in KINKED and v[q] == KINKED[fn]:
            h = mp.mpf(10) ** -12
            lo = (fn_eval(fn, par, [v[q] - h]) - fn_eval(fn, par, [v[q]])) / (-h)
            hi = (fn_eval(fn, par, [v[q] + h]) - fn_eval(fn, par, [v[q]])) / h
            lo, hi = min(lo, hi), max(lo, hi)
            out.append((float(mp.nstr(lo, 12)), float(mp.nstr(hi, 12))))
            continue
        order = tuple(1 if i == q else 0 for i in range(len(v)))
        if len(v) == 1:
            d = mp.diff(lambda x: fn_eval(fn, par, [x]), v[0])
        else:
            d = mp.diff(lambda *a: fn_eval(fn, par, list(a)), tuple(v), order)
        out.append((float(d), float(d)))
    return out


def geom_args(g, two):
    if two:
        return dict(kernel_size=tuple(g["k"]), stride=tuple(g["s"]), padding=tuple(g["p"]), dilation=tuple(g["d"]))
    return dict(kernel_size=g["k"][0], stride=g["s"][0], padding=g["p"][0], dilation=g["d"][0])


def squash(t):
    """(a, a) -> a : the int form of an int-or-tuple argument"""
    return t[0] if isinstance(t, tuple) and len(set(t)) == 1 else t


def call_nn(sg, op, a, T, variant=0):
    F, nn = sg.nn.functional, sg.nn
    x = T[0]
    if op in ("conv1d", "conv2d"):
        g = a["g"]
        two = op == "conv2d"
        b = T[2] if a["bias"] else None
        kw = geom_args(g, two)
        kw.pop("kernel_size")
        if variant >= 1 and two:
            kw = {k: squash(v) for k, v in kw.items()}      # int forms where both axes agree
        if variant == 2:
            # the layer module, with the case's weights installed
            ws = T[1].shape
            layer = (nn.Conv2d if two else nn.Conv1d)(ws[1], ws[0], tuple(ws[2:]) if two else ws[2], bias=b is not None, **kw)
            layer.weight, layer.bias = T[1], b
            object.__setattr__(layer, "weight", T[1])
            object.__setattr__(layer, "bias", b)
            return layer(x)
        return (F.conv2d if two else F.conv1d)(x, T[1], b, **kw)
    if op in ("maxpool1d", "avgpool1d", "maxpool2d", "avgpool2d"):
        two = op.endswith("2d")
        kw = geom_args(a["g"], two)
        fn = {"maxpool1d": F.max_pool1d, "avgpool1d": F.avg_pool1d, "maxpool2d": F.max_pool2d, "avgpool2d": F.avg_pool2d}[op]
        sq = {k: squash(v) for k, v in kw.items()} if two else kw
        if variant == 1 and all(isinstance(v, int) for v in sq.values()):
            return fn(x, **sq)                                  # documented int form of the functional op
        if variant >= 1:
            cls = {"maxpool1d": nn.MaxPool1d, "avgpool1d": nn.AvgPool1d, "maxpool2d": nn.MaxPool2d, "avgpool2d": nn.AvgPool2d}[op]
            return cls(**sq)(x)
        return fn(x, **kw)
    if op == "nnunfold":
        kw = geom_args(a["g"], True)
        pv = RC.pyscalar(a["padv"])
        sq = {k: squash(v) for k, v in kw.items()}
        if variant == 1 and all(isinstance(v, int) for v in sq.values()):
            return F.unfold(x, pad_value=pv, **sq)              # documented int form of the functional op
        if variant >= 1:
            return nn.Unfold(pad_value=pv, **sq)(x)
        return F.unfold(x, pad_value=pv, **kw)
    if op == "nnfold":
        kw = geom_args(a["g"], True)
        sq = {k: squash(v) for k, v in kw.items()}
        if variant == 1 and all(isinstance(v, int) for v in sq.values()):
            return F.fold(x, tuple(a["osize"]), **sq)
        if variant >= 1:
            return nn.Fold(tuple(a["osize"]), **sq)(x)
        return F.fold(x, tuple(a["osize"]), **kw)
    if op == "linear":
        b = T[2] if a["bias"] else None
        return F.linear(x, T[1], b)
    if op in ("relu", "selu", "tanh", "sigmoid"):
        if variant == 1:
            return {"relu": nn.ReLU, "selu": nn.SELU, "tanh": nn.Tanh, "sigmoid": nn.Sigmoid}[op]()(x)
        return getattr(F, op)(x)
    if op == "leaky_relu":
        s = float(Fraction(a["slope"][0], a["slope"][1]))
        return nn.LeakyReLU(s)(x) if variant == 1 else F.leaky_relu(x, s)
    if op in ("softmax", "log_softmax"):
        if variant == 1:
            return (nn.Softmax if op == "softmax" else nn.LogSoftmax)(a["dim"])(x)
        return getattr(F, op)(x, a["dim"])
    if op in ("mse", "bce", "bcelogits", "nll", "ce"):
        red = a["red"]
        if op in ("nll", "ce"):
            tgt = sg.Tensor(np.array(a["labels"], dtype=np.int64))
            AUX.append(("labels", tgt, RC.snap(tgt)))
        else:
            tgt = T[1]
        if red == "functional":
            fn = {"mse": F.mse_loss, "bce": F.binary_cross_entropy, "bcelogits": F.binary_cross_entropy_with_logits,
                  "nll": F.nll_loss, "ce": F.cross_entropy}[op]
            return fn(x, tgt)
        cls = {"mse": nn.MSELoss, "bce": nn.BCELoss, "bcelogits": nn.BCEWithLogitsLoss, "nll": nn.NLLLoss, "ce": nn.CrossEntropyLoss}[op]
        return cls(reduction=red)(x, tgt)
    raise AssertionError("unknown nn op " + op)


AUX = []      # tensors the caller builds besides the operands (class labels, running statistics used in inference mode):
              # (name, tensor, bytes at creation) - the operation and its backward must leave them unchanged (C11)


def nn_argclass(case):
    op, a = case["op"], case["a"]
    tags = []
    if "g" in a:
        g = a["g"]
        if any(s > k for s, k in zip(g["s"], g["k"])):
            tags.append("stride>kernel")
        if any(d > 1 for d in g["d"]):
            tags.append("dilated")
        if any(p > 0 for p in g["p"]):
            tags.append("padded")
        if len(g["k"]) == 2 and (g["k"][0] != g["k"][1] or g["s"][0] != g["s"][1] or g["p"][0] != g["p"][1] or g["d"][0] != g["d"][1]):
            tags.append("nonsquare")
    if "dim" in a:
        n = len(case["shapes"][0])
        d = a["dim"] + n if a["dim"] < 0 else a["dim"]
        tags.append("rank%d" % n)
        tags.append("dim=last" if d == n - 1 else "dim=%d" % d)
    if "red" in a:
        tags.append("red=" + a["red"])
    if op == "batch_norm":
        tags.append("train" if a["training"] else "eval")
        tags.append("affine" if a["affine"] else "plain")
        tags.append("running" if a["running"] else "norunning")
        tags.append("rank%d" % len(case["shapes"][0]))
    if "bias" in a:
        tags.append("bias" if a["bias"] else "nobias")
    return ",".join(tags) or "-"


RC_argclass = RC.argclass


def argclass(case):
    if case["op"] in NN_OPS:
        return nn_argclass(case)
    return RC_argclass(case)


NN_OPS = {"conv1d", "conv2d", "maxpool1d", "avgpool1d", "maxpool2d", "avgpool2d", "nnunfold", "nnfold", "linear", "relu", "selu", "tanh",
          "sigmoid", "leaky_relu", "softmax", "log_softmax", "mse", "bce", "bcelogits", "nll", "ce", "batch_norm"}


class NNReplayer(RC.CatalogReplayer):
    variants = (0, 1, 2)   # functional with tuple arguments / functional with int arguments / layer module

    def __init__(self, sg):
        super().__init__(sg, caller=self._call)
        RC.argclass = argclass
        self._jac_cache = {}

    def _call(self, sg, op, a, T, variant=0):
        del AUX[:]
        self.aux = AUX
        if op == "batch_norm":
            return self._bn(sg, a, T)
        if op in NN_OPS:
            return call_nn(sg, op, a, T, variant)
        return RC.call_op(sg, op, a, T, variant)

    def _bn(self, sg, a, T):
        case = self._case
        x = T[0]
        w = T[1] if a["affine"] else None
        b = T[2] if a["affine"] else None
        rm = rv = None
        if a["running"]:
            rm = sg.Tensor(np.array([float(Fraction(q[0], q[1])) for q in case["rm"]], dtype=x.data.dtype))
            rv = sg.Tensor(np.array([float(Fraction(q[0], q[1])) for q in case["rv"]], dtype=x.data.dtype))
            if not a["training"]:
                AUX.append(("running_mean", rm, RC.snap(rm)))
                AUX.append(("running_var", rv, RC.snap(rv)))
        eps = float(Fraction(case["eps"][0], case["eps"][1]))
        return sg.nn.functional.batch_norm(x, w, b, rm, rv, training=a["training"], momentum=0.1, eps=eps)

    def run(self, case, dtypes=(np.float32, np.float64), cross_g=False):
        self._case = case
        # restrict the requires-grad subsets to operands the specification treats as differentiable
        if "diffops" in case:
            d = set(case["diffops"])
            case = dict(case)
            case["rgsets"] = [r for r in case["rgsets"] if all((k + 1) in d or not r[k] for k in range(len(r)))]
            self._case = case
        return super().run(case, dtypes=dtypes, cross_g=cross_g)

    # ---- rgen ------------------------------------------------------------------------------
    def _rgen_eval(self, case):
        key = id(case.get("el"))
        if key in self._jac_cache and self._jac_cache[key][0] is case.get("el"):
            return self._jac_cache[key][1], self._jac_cache[key][2]
        X = [[q2m(q) for q in vals] for vals in case["X"]]
        vals, jac = [], []
        for terms in case["el"]:
            v = mp.mpf(0)
            row = []
            for t in terms:
                args = [X[k - 1][i - 1] for k, i in t["args"]]
                c = q2m(t["c"])
                v += c * fn_eval(t["fn"], t["par"], args)
                for (k, i), (lo, hi) in zip(t["args"], fn_partials(t["fn"], t["par"], args)):
                    cf = float(c)
                    a_, b_ = cf * lo, cf * hi
                    row.append((k - 1, i - 1, min(a_, b_), max(a_, b_)))
            vals.append(float(v))
            jac.append(row)
        self._jac_cache = {key: (case.get("el"), vals, jac)}
        return vals, jac

    def expected_out(self, case, dtype):
        if case["kind"] == "rgen":
            vals, _ = self._rgen_eval(case)
            return np.array(vals, dtype=np.float64).reshape(tuple(case["oshape"]))
        return super().expected_out(case, dtype)

    def expected_grads(self, case, gq):
        if case["kind"] != "rgen":
            return super().expected_grads(case, gq)
        _, jac = self._rgen_eval(case)
        g = [float(Fraction(q[0], q[1])) for q in gq]
        lo = [np.zeros(int(np.prod(s)) if s else 1) for s in case["shapes"]]
        hi = [np.zeros(int(np.prod(s)) if s else 1) for s in case["shapes"]]
        for j, row in enumerate(jac):
            if g[j] == 0:
                continue
            for (k, i, a_, b_) in row:
                x, y = g[j] * a_, g[j] * b_
                lo[k][i] += min(x, y)
                hi[k][i] += max(x, y)
        out = []
        for k, s in enumerate(case["shapes"]):
            if np.allclose(lo[k], hi[k], rtol=0, atol=1e-12):
                out.append(lo[k].reshape(tuple(s)))
            else:
                out.append(Interval(lo[k].reshape(tuple(s)), hi[k].reshape(tuple(s))))
        return out


class Interval:
    """sub-gradient box [lo, hi] (kinks of the relu family)"""

    def __init__(self, lo, hi):
        self.lo, self.hi = lo, hi
        self.size = lo.size

    def contains(self, arr, tol):
        return bool(np.all(arr >= self.lo - tol) and np.all(arr <= self.hi + tol))
