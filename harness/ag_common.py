"""Shared driver for the checks that are decided with spec/Autograd.tla."""
import json
import time

import numpy as np

from .vlib import core, repo, tlc
from . import replay_autograd as RA

INVS = ["TypeOK", "FnIffRg", "FloatOnly", "Accumulate", "SweepOnce", "NoHistory"]
PROPS = ["NoGradOnNonReq", "Untouched", "ValuesFrozen", "CtxRestore", "ModesOnlyByCtx"]

BASE = dict(MaxNodes=4, LeafVals=[2, -3, 5, 7], GAlpha={1, -2}, Ops={"add", "mul"}, UseVec=False, MaxBackward=2,
            MaxCtx=0, MaxHist=0, Acts={"op", "bw"}, Record=False, CanonSweep=False, InitLeaves=[])


def model_check(report, name, consts, workers=16, timeout=3000, liveness=False):
    """Exhaustive exploration of the design under `consts` with every invariant / action property."""
    c = dict(BASE)
    c.update(consts)
    c["Record"] = False
    c["CanonSweep"] = False
    props = list(PROPS) + (["SweepTerminates"] if liveness else [])
    w, cfg = tlc.make_mc("Autograd", c, invariants=INVS, properties=props, spec="Spec" if liveness else None)
    res = tlc.run_tlc("Autograd", cfg, workers=workers, wrapper=w, timeout=timeout, tag=name)
    if res.violation:
        raise core.Machinery("design-level check %s: TLC reports %s violated on the specification itself\n%s" % (
            name, res.violation, res.out[-3000:]))
    tlc.require_clean(res, name)
    report.tlc(res, name + " (exhaustive, all invariants)")
    import sys
    print("[mc %s] %d distinct states, %.1fs" % (name, res.distinct, res.wall), file=sys.stderr)
    return res


def emit(report, name, consts, simulate=None, depth=None, seed=None, timeout=3000, workers=16, limit=None):
    """Record-mode run: returns (histories, obs lookup)."""
    c = dict(BASE)
    c.update(consts)
    c["Record"] = True
    c["CanonSweep"] = True
    table = {}

    def on_case(o):
        # observations are kept as compact JSON text (parsed on demand): several times less memory than nested dicts
        table[RA.prefix_key(o["hist"])] = json.dumps(o["obs"], separators=(",", ":"))
    w, cfg = tlc.make_mc("Autograd", c, invariants=["Emit"])
    res = tlc.run_tlc("Autograd", cfg, workers=workers, wrapper=w, on_case=on_case, simulate=simulate, depth=depth,
                      seed=seed, timeout=timeout, tag=name, keep_out=True)
    tlc.require_clean(res, name)
    report.tlc(res, name + (" (simulation)" if simulate else " (emission of all behaviours)"))
    # maximal histories = those that are not a proper prefix of another emitted history
    prefixes = set()
    for k in table:
        h = json.loads(k)
        if h:
            prefixes.add(RA.prefix_key(h[:-1]))
    mkeys = [k for k in table if k not in prefixes]
    del prefixes
    if limit is not None and len(mkeys) > limit:
        import random
        mkeys = random.Random(seed or 0).sample(mkeys, limit)     # sampled BEFORE parsing: memory stays bounded
    maximal = [json.loads(k) for k in mkeys]
    import sys
    print("[emit %s] %d behaviours (%d observations), TLC %.1fs" % (name, len(maximal), len(table), res.wall), file=sys.stderr)
    return maximal, table, c


_G = {}


def _worker(args):
    lo, hi, dt, gd = args
    import gc
    gc.freeze()      # the inherited tables are immutable here: keep them out of every collection
    sg = repo.load(_G["repo"])
    rp = RA.Replayer(sg, dtype=dt, gdtype=gd)
    for k, v in (_G.get("rattrs") or {}).items():
        setattr(rp, k, v)
    table, consts, maximal = _G["table"], _G["consts"], _G["maximal"]
    out = []
    for idx in range(lo, hi):
        hist = maximal[idx]

        def expected(i, hist=hist):
            o = table.get(RA.prefix_key(hist[:i]))
            if o is None:
                raise core.Machinery("no observation emitted for a prefix (emission incomplete)")
            return json.loads(o)
        divs = rp.run(hist, expected, consts["InitLeaves"], consts["LeafVals"], live_check=_G.get("live", False))
        shape_key = "/".join(c["a"] + (":" + c["op"] if c["a"] == "op" else "") for c in hist)
        out.append((idx, shape_key, divs))
    return out


def replay_all(ctx, report, maximal, table, consts, kinds, dtypes=(np.float32,), label="", limit=None,
               gdtypes=None, procs=16, live=False, rattrs=None):
    """Replay every maximal behaviour into the implementation (in parallel worker processes).
    kinds: dict divergence kind -> tag; only these kinds are reported by the calling check."""
    import multiprocessing as mp
    if limit is not None and len(maximal) > limit:
        import random
        rnd = random.Random(ctx.seed)
        maximal = rnd.sample(maximal, limit)
    _G.update(repo=ctx.repo, table=table, consts=consts, maximal=maximal, live=live, rattrs=rattrs)
    n = 0
    for di, dt in enumerate(dtypes):
        gd = None if gdtypes is None else gdtypes[di]
        total = len(maximal)
        chunk = max(1, min(2000, (total + procs - 1) // procs))
        jobs = [(lo, min(total, lo + chunk), dt, gd) for lo in range(0, total, chunk)]
        if procs > 1 and len(jobs) > 1:
            with mp.get_context("fork").Pool(min(procs, len(jobs))) as pool:
                results = pool.map(_worker, jobs)
        else:
            results = [_worker(j) for j in jobs]
        for res in results:
            for idx, shape_key, divs in res:
                hist = maximal[idx]
                n += 1
                report.case(label + shape_key)
                report.traces += 1
                if idx % 997 == 1:
                    report.sample({"config": label, "dtype": str(np.dtype(dt)), "history": hist}, limit=4)
                for kind, key, msg in divs:
                    if kind in kinds:
                        report.violation(key, msg,
                                         {"spec": "Autograd", "consts": _jsonable(consts), "dtype": str(np.dtype(dt)),
                                          "gdtype": str(np.dtype(gd)) if gd is not None else None,
                                          "history": hist, "divergence": [kind, key, msg], "rattrs": rattrs})
    return n


def _jsonable(c):
    out = {}
    for k, v in c.items():
        if isinstance(v, (set, frozenset)):
            out[k] = sorted(v, key=repr)
        else:
            out[k] = v
    return out


def replay_file(ctx, path, kinds):
    """--replay: re-execute one recorded behaviour alone and print the divergences."""
    rp = json.load(open(path))["replay"]
    sg = repo.load(ctx.repo)
    consts = rp["consts"]
    c = dict(BASE)
    c.update({k: (set(v) if k in ("GAlpha", "Ops", "Acts") else v) for k, v in consts.items()})
    c["Record"] = True
    c["CanonSweep"] = True
    c["MaxHist"] = max(c.get("MaxHist", 0), len(rp["history"]))
    # re-derive the expected observations for exactly this history from the specification
    table = {}

    def on_case(o):
        table[RA.prefix_key(o["hist"])] = o
    hist = rp["history"]
    extra = "Target == " + _tla_hist(hist) + "\nFollow == Len(hist') <= Len(hist) \\/ (Len(hist') <= Len(Target) /\\ hist' = SubSeq(Target, 1, Len(hist')))"
    w, cfg = tlc.make_mc("Autograd", c, invariants=["Emit"], action_constraints=["Follow"], extra_defs=extra)
    res = tlc.run_tlc("Autograd", cfg, workers=1, wrapper=w, on_case=on_case, tag="replay")
    tlc.require_clean(res, "replay")
    r = RA.Replayer(sg, dtype=np.dtype(rp["dtype"]), gdtype=np.dtype(rp["gdtype"]) if rp.get("gdtype") else None)
    for k, v in (rp.get("rattrs") or {}).items():
        setattr(r, k, v)

    def expected(i):
        return table[RA.prefix_key(hist[:i])]["obs"]
    divs = [d for d in r.run(hist, expected, c["InitLeaves"], c["LeafVals"]) if d[0] in kinds]
    for d in divs:
        print("DIVERGENCE", d)
    if divs:
        print("VIOLATION property=%s replay=%s" % (ctx.pid, path))
        return 1
    print("replay: no divergence")
    return 0


def _tla_hist(hist):
    def val(v):
        if isinstance(v, bool):
            return "TRUE" if v else "FALSE"
        if isinstance(v, int):
            return str(v)
        if isinstance(v, str):
            return '"%s"' % v
        if isinstance(v, list):
            return "<<" + ", ".join(val(x) for x in v) + ">>"
        if isinstance(v, dict):
            return "[" + ", ".join("%s |-> %s" % (k, val(x)) for k, x in v.items()) + "]"
        raise TypeError(v)

    def rec(c):
        c = dict(c)
        if c["a"] == "bw":
            c["fns"] = None
            c["edges"] = None
        return c
    # sets (fns, edges) are not comparable through JSON lists: match on the other fields via a
    # projection - simplest: rebuild them as TLA+ sets
    out = []
    for c in hist:
        items = []
        for k, v in c.items():
            if k == "fns":
                items.append("fns |-> {" + ", ".join(str(x) for x in v) + "}")
            elif k == "edges":
                items.append("edges |-> {" + ", ".join("<<%d, %d>>" % (a, b) for a, b in v) + "}")
            else:
                items.append("%s |-> %s" % (k, val(v)))
        out.append("[" + ", ".join(items) + "]")
    return "<<" + ", ".join(out) + ">>"
