"""Stand-in for the third-party progress bar `pkbar`, whose import is broken in this image
(it needs pkg_resources).  synapgrad.nn.utils.train only calls Kbar(...), .update and .add."""


class Kbar:
    def __init__(self, *a, **k):
        self.calls = []

    def update(self, *a, **k):
        self.calls.append(("update", a, k))

    def add(self, *a, **k):
        self.calls.append(("add", a, k))
