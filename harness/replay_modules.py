"""Replay behaviours of spec/Modules.tla on real synapgrad.nn.Module objects."""
import json
from collections import OrderedDict

import numpy as np

from .vlib import repo


def prefix_key(hist):
    return json.dumps(hist, sort_keys=True)


class ModReplayer:
    def __init__(self, sg, stop_kinds=None):
        self.sg = sg
        self.stop_kinds = stop_kinds      # None: stop a history at its first divergence; else only at a divergence of these kinds
        nn = sg.nn

        class Box(nn.Module):
            pass

        class Aff(nn.Module):
            def __init__(self, a, b):
                super().__init__()
                self.a_, self.b_ = a, b

            def forward(self, x):
                return x * float(self.a_) + float(self.b_)
        self.Box, self.Aff = Box, Aff

    def run(self, hist, expected, consts):
        sg, nn = self.sg, self.sg.nn
        div = []
        M = [self.Box() for _ in range(consts["NMods"])]
        M += [self.Aff(i + 2, i + 1) for i in range(consts["NLeaf"])]
        P = [nn.Parameter(sg.Tensor(np.full((sz,), 1.5, dtype=np.float32), requires_grad=rg))
             for sz, rg in zip(consts["ParSizes"], consts["ParRg"])]
        if consts.get("InitTree") == "block":
            M[0].w = P[0]
            M[0].fc = M[1]
            M[1].w = P[1]
        self.compare(expected(0), M, P, div, "init")
        for i, call in enumerate(hist):
            a = call["a"]
            try:
                with repo.quiet():
                    if a == "setattr":
                        kind, v = call["x"]
                        obj = M[v - 1] if kind == "mod" else P[v - 1] if kind == "par" else None if kind == "none" else 5
                        if call["via"] == "attr":
                            setattr(M[call["m"] - 1], call["name"], obj)
                        elif kind == "mod":
                            M[call["m"] - 1].register_module(call["name"], obj)
                        else:
                            M[call["m"] - 1].register_parameter(call["name"], obj)
                    elif a == "seq":
                        c1, c2 = M[call["c1"] - 1], M[call["c2"] - 1]
                        M.append(nn.Sequential(OrderedDict([("y", c1), ("x", c2)])) if call["named"] else nn.Sequential(c1, c2))
                    elif a in ("train", "eval"):
                        r = getattr(M[call["m"] - 1], a)()
                        if r is not M[call["m"] - 1]:
                            div.append(("api", "mode:return", "%s() does not return the module" % a))
                    elif a in ("freeze", "unfreeze"):
                        getattr(M[call["m"] - 1], a)()
                    elif a == "grad":
                        p = P[call["p"] - 1]
                        (p * 2.0).sum().backward()
                    elif a == "zero_grad":
                        M[call["m"] - 1].zero_grad()
                    else:
                        raise AssertionError(a)
            except AssertionError:
                raise
            except Exception as e:  # noqa: BLE001
                kind = call["x"][0] if a == "setattr" else ""
                div.append(("error", "%s:%s:raised:%s" % (a, kind, type(e).__name__), "step %d %s raised %s: %s" % (i, json.dumps(call), type(e).__name__, str(e)[:100])))
                break
            n0 = len(div)
            ctxt = a + (":" + call["x"][0] + ":" + call["via"] if a == "setattr" else "")
            self.compare(expected(i + 1), M, P, div, ctxt)
            if len(div) > n0 and (self.stop_kinds is None or any(d[0] in self.stop_kinds for d in div[n0:])):
                break
        return div

    def compare(self, obs, M, P, div, ctxt):
        sg = self.sg
        pid = {id(p): i + 1 for i, p in enumerate(P)}
        mid = {id(m): i + 1 for i, m in enumerate(M)}
        if len(obs["mods"]) != len(M):
            div.append(("structure", "modcount:" + ctxt, "module count"))
            return
        for mi, (e, m) in enumerate(zip(obs["mods"], M), start=1):
            with repo.quiet():
                ps = [pid.get(id(p), 0) for p in m.parameters()]
                subs = [mid.get(id(c), 0) for c in m.submodules()]
                np3 = [int(m.num_params()), int(m.num_params(trainable=True)), int(m.num_params(non_trainable=True))]
            if ps != e["pars"]:
                dup = "dup" if len(set(ps)) != len(ps) else ("stale" if set(ps) - set(e["pars"]) else "order" if sorted(ps) == sorted(e["pars"]) else "missing")
                div.append(("params", "parameters:%s:%s" % (dup, ctxt), "module %d: parameters() = %s, specification %s" % (mi, ps, e["pars"])))
            if subs != e["subs"]:
                div.append(("structure", "submodules:" + ctxt, "module %d: submodules() = %s, specification %s" % (mi, subs, e["subs"])))
            if ps == e["pars"] and np3 != e["np"]:
                div.append(("params", "num_params:" + ctxt, "module %d: num_params (all, trainable, frozen) = %s, specification %s" % (mi, np3, e["np"])))
            if bool(m.training) != e["tr"]:
                div.append(("mode", "training:" + ctxt, "module %d: training = %s, specification %s" % (mi, m.training, e["tr"])))
            if e["call"]:
                try:
                    with repo.quiet():
                        y = m(sg.Tensor(np.array(3.0, dtype=np.float32)))
                    if abs(float(y.data) - e["call"][0]) > 1e-4:
                        div.append(("call", "call:order:" + ctxt, "module %d applied to 3 gives %s, specification %s" % (mi, float(y.data), e["call"][0])))
                except Exception as ex:  # noqa: BLE001
                    div.append(("call", "call:raised:" + ctxt, "module %d: call raised %s" % (mi, type(ex).__name__)))
        for p, (t, rg, gm) in enumerate(zip(P, obs["prg"], obs["pgrad"]), start=1):
            if bool(t.requires_grad) != rg:
                div.append(("flags", "requires_grad:" + ctxt, "parameter %d: requires_grad = %s, specification %s" % (p, t.requires_grad, rg)))
            with repo.quiet():
                g = t.grad
            if gm == "none" and g is not None:
                div.append(("grads", "grad:present:" + ctxt, "parameter %d has a gradient, specification: none" % p))
            elif gm == "zero" and g is not None and np.any(g.data != 0):
                div.append(("grads", "grad:notzero:" + ctxt, "parameter %d: gradient %s after zero_grad" % (p, g.data.tolist())))
            elif gm == "val" and (g is None or not np.any(g.data != 0)):
                div.append(("grads", "grad:lost:" + ctxt, "parameter %d: gradient missing or zero, specification: present" % p))
