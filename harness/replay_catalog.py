"""Replay the cases emitted by spec/OpCatalog.tla (and NNCatalog.tla) into the real library.

For every case: build the operands (exact rationals -> float32 / float64 arrays), call the public
API form of the operation, compare shape / values / acceptance with the specification, then for
every subset of operands requiring grad and every selected upstream gradient run backward on a fresh
forward pass and compare each operand's .grad with the specification's vector-Jacobian product.
Byte-level snapshots of operands and upstream gradients implement the frame conditions (C11)."""
from fractions import Fraction

import mpmath as mp
import numpy as np

from .vlib import repo

mp.mp.dps = 40

RTOL = {np.dtype(np.float32): 3e-5, np.dtype(np.float64): 1e-9}


def q2f(q):
    return Fraction(q[0], q[1])


def qarr(seq, shape, dtype):
    return np.array([float(Fraction(q[0], q[1])) for q in seq], dtype=dtype).reshape(tuple(shape))


def pyscalar(q):
    f = Fraction(q[0], q[1])
    return int(f) if f.denominator == 1 else float(f)


def dims_arg(d):
    if len(d) == 0:
        return None
    if len(d) == 1:
        return d[0]
    return tuple(d)


def opt(o):
    return None if len(o) == 0 else o[0]


def item_key(it, as_list=False):
    t = it["t"]
    if t == "int":
        return it["i"]
    if t == "slice":
        return slice(opt(it["a"]), opt(it["b"]), it["st"])
    if t == "ell":
        return Ellipsis
    if t == "new":
        return None
    if t == "arr":
        return list(it["ix"]) if as_list else np.array(it["ix"])      # both documented integer-array forms
    raise AssertionError(t)


def call_op(sg, op, a, T, variant=0):
    """The public call for a catalogue operation.  variant selects among equivalent public forms
    (operator / function / method) so that every form is exercised."""
    x = T[0]
    if variant == 2:
        r = call_kw(sg, op, a, T)
        if r is not NotImplemented:
            return r
        variant = 1
    if op == "add":
        return (x + T[1]) if variant == 0 else sg.add(x, T[1])
    if op == "sub":
        return x - T[1]
    if op == "mul":
        return (x * T[1]) if variant == 0 else sg.mul(x, T[1])
    if op == "div":
        return x / T[1]
    if op == "addc":
        return x + pyscalar(a["c"])
    if op == "raddc":
        return pyscalar(a["c"]) + x
    if op == "subc":
        return x - pyscalar(a["c"])
    if op == "rsubc":
        return pyscalar(a["c"]) - x
    if op == "mulc":
        return x * pyscalar(a["c"])
    if op == "rmulc":
        return pyscalar(a["c"]) * x
    if op == "divc":
        return x / pyscalar(a["c"])
    if op == "rdivc":
        return pyscalar(a["c"]) / x
    if op == "neg":
        return (-x) if variant == 0 else sg.neg(x)
    if op == "clone":
        return x.clone() if variant == 0 else sg.clone(x)
    if op == "powi":
        return (x ** a["n"]) if variant == 0 else sg.pow(x, a["n"])
    if op == "powf":
        return x ** float(q2f(a["p"]))
    if op == "rpow":
        return pyscalar(a["b"]) ** x
    if op == "exp":
        return x.exp() if variant == 0 else sg.exp(x)
    if op == "log":
        return x.log() if variant == 0 else sg.log(x)
    if op == "sqrt":
        return x.sqrt() if variant == 0 else sg.sqrt(x)
    if op == "matmul":
        return (x @ T[1]) if variant == 0 else sg.matmul(x, T[1])
    if op == "addmm":
        return sg.addmm(x, T[1], T[2])
    if op in ("sum", "mean"):
        d = dims_arg(a["dims"])
        if variant == 0:
            return getattr(x, op)(d, a["keep"]) if d is not None or a["keep"] else getattr(x, op)()
        return getattr(sg, op)(x, d, a["keep"])
    if op in ("max", "min"):
        d = dims_arg(a["dims"])
        if d is None:
            return getattr(x, op)(keepdims=a["keep"]) if a["keep"] else getattr(x, op)()
        return getattr(x, op)(d, a["keep"]) if variant == 0 else getattr(sg, op)(x, d, a["keep"])
    if op == "squeeze":
        d = dims_arg(a["dims"])
        return x.squeeze() if d is None else (x.squeeze(d) if variant == 0 else sg.squeeze(x, d))
    if op == "unsqueeze":
        d = dims_arg(a["dims"])
        return x.unsqueeze(d) if variant == 0 else sg.unsqueeze(x, d)
    if op == "reshape":
        return x.reshape(tuple(a["shape"])) if variant == 0 else sg.reshape(x, tuple(a["shape"]))
    if op == "flatten":
        return x.flatten(a["sd"], a["ed"]) if variant == 0 else sg.flatten(x, a["sd"], a["ed"])
    if op == "movedim":
        return x.movedim(a["a"], a["b"]) if variant == 0 else x.moveaxis(a["a"], a["b"])
    if op == "transpose":
        return x.transpose(a["a"], a["b"]) if variant == 0 else sg.transpose(x, a["a"], a["b"])
    if op == "unfold":
        return x.unfold(a["dim"], a["size"], a["step"]) if variant == 0 else sg.unfold_dim(x, a["dim"], a["size"], a["step"])
    if op == "concat":
        return sg.concat(list(T), a["dim"])
    if op == "stack":
        return sg.stack(list(T), a["dim"]) if variant == 0 else sg.stack(tuple(T), dim=a["dim"])
    if op == "unbind":
        return sg.unbind(x, a["dim"])[a["t"] - 1]
    if op == "getitem":
        keys = [item_key(it, as_list=(variant == 1)) for it in a["items"]]
        return x[keys[0]] if len(keys) == 1 else x[tuple(keys)]
    raise AssertionError("unknown op " + op)


def call_kw(sg, op, a, T):
    """keyword-argument spellings of the documented signatures (argument types as documented), and the module-level
    function where variant 1 uses the method (or the reverse)"""
    x = T[0]
    as_list = lambda d: d      # noqa: E731  (lists in place of the documented tuples are not promised: not used)
    if op in ("sum", "mean"):
        return getattr(sg, op)(x, dim=as_list(dims_arg(a["dims"])), keepdims=a["keep"])
    if op in ("max", "min"):
        d = dims_arg(a["dims"])
        return getattr(x, op)(dim=d, keepdims=a["keep"])
    if op == "squeeze":
        return x.squeeze(dim=as_list(dims_arg(a["dims"])))
    if op == "unsqueeze":
        return sg.unsqueeze(x, dim=dims_arg(a["dims"]))
    if op == "reshape":
        return x.reshape(shape=tuple(a["shape"]))
    if op == "flatten":
        return x.flatten(start_dim=a["sd"], end_dim=a["ed"])
    if op == "movedim":
        return sg.movedim(x, source=a["a"], destination=a["b"])
    if op == "transpose":
        return x.transpose(dim0=a["a"], dim1=a["b"])
    if op == "unfold":
        return x.unfold(dimension=a["dim"], size=a["size"], step=a["step"])
    if op == "concat":
        return sg.concat(x=list(T), dim=a["dim"])
    if op == "stack":
        return sg.stack(x=list(T), dim=a["dim"])
    if op == "unbind":
        return sg.unbind(x, dim=a["dim"])[a["t"] - 1]
    if op == "powi":
        return sg.pow(x, n=float(a["n"]))
    if op == "addmm":
        return sg.addmm(x1=x, x2=T[1], x3=T[2])
    if op == "matmul":
        return x.matmul(T[1]) if hasattr(x, "matmul") else NotImplemented
    return NotImplemented


# ---- real functions named by the specification (interpreted from their textbook definition) ----
def rfun(fn, par):
    if fn == "exp":
        return mp.exp
    if fn == "log":
        return mp.log
    if fn == "sqrt":
        return mp.sqrt
    if fn == "powf":
        p = mp.mpf(par[0]) / par[1]
        return lambda x: mp.power(x, p)
    if fn == "rpow":
        b = mp.mpf(par[0]) / par[1]
        return lambda x: mp.power(b, x)
    raise AssertionError(fn)


def argclass(case):
    """coarse class of the arguments of a case (used in fingerprints of divergences)"""
    op, a = case["op"], case["a"]
    sh = case["shapes"]
    tags = []
    if op in ("sum", "mean", "max", "min", "squeeze", "unsqueeze"):
        d = a["dims"]
        tags.append("dim=" + ("none" if not d else ("int" if len(d) == 1 else "tuple")) + ("-neg" if any(x < 0 for x in d) else ""))
        if a.get("keep"):
            tags.append("keep")
    if op == "getitem":
        ts = [it["t"] for it in a["items"]]
        tags.append("+".join(ts))
        for it in a["items"]:
            if it["t"] == "arr" and len(set(it["ix"])) != len(it["ix"]):
                tags.append("repeat")
            if it["t"] == "slice" and it["st"] < 0:
                tags.append("negstep")
    if op in ("flatten",):
        tags.append("sd%s,ed%s" % ("<0" if a["sd"] < 0 else ">=0", "<0" if a["ed"] < 0 else ">=0"))
    if op in ("movedim", "transpose"):
        tags.append("a%s,b%s" % ("<0" if a["a"] < 0 else ">=0", "<0" if a["b"] < 0 else ">=0"))
    if op in ("add", "sub", "mul", "div", "matmul", "addmm"):
        tags.append("bcast" if len({tuple(s) for s in sh}) > 1 else "same")
    tags.append("rank%d" % len(sh[0]))
    return ",".join(tags)


class _View:
    def __init__(self, data):
        self.data = data
        self.shape = data.shape


def snap(t):
    """what 'the data of a tensor' is for the frame conditions: shape, dtype and bytes"""
    return (tuple(t.data.shape), str(t.data.dtype), t.data.tobytes())


def has_layout(shape):
    """a column-major copy differs from the row-major one only with at least two dims larger than 1"""
    return sum(1 for n in shape if n > 1) >= 2


class CatalogReplayer:
    variants = (0, 1, 2)   # public call forms exercised per case: operator / method, function, keyword and list spellings
    layout = "C"           # memory layout of operand / gradient arrays: "C" row-major, "F" column-major (same values)

    def __init__(self, sg, caller=call_op):
        self.sg = sg
        self.caller = caller

    def lay(self, arr):
        return np.asfortranarray(arr) if self.layout in ("F", "V") and arr.ndim >= 2 else arr      # (asfortranarray has ndmin=1)

    def mk(self, arr, rg):
        """operand tensor for `arr`.  Layout "V": the operand is the result of library operations on another leaf
        (all dims reversed by transposes of a leaf holding arr.T), so it is a non-leaf whose array is a strided view;
        its gradient is then read from that leaf."""
        sg = self.sg
        if self.layout != "V" or not has_layout(arr.shape) or arr.dtype.kind != "f":
            return sg.Tensor(self.lay(arr), requires_grad=rg), None
        base = sg.Tensor(np.ascontiguousarray(arr.T), requires_grad=rg)
        x, n = base, arr.ndim
        with repo.quiet():
            for i in range(n // 2):
                x = x.transpose(i, n - 1 - i)
        return x, base

    def grad_of(self, k, t):
        base = self.bases.get(k)
        if base is None:
            return t.grad
        g = base.grad
        return None if g is None else _View(g.data.T)

    def operands(self, case, dtype, rg):
        sg = self.sg
        self.bases = {}
        if isinstance(case.get("a"), dict) and case["a"].get("alias"):
            # one tensor object passed for every operand (x op x)
            arr = qarr(case["X"][0], case["shapes"][0], dtype)
            t, base = self.mk(arr, bool(any(rg)))
            self.bases[0] = base
            return [t] * len(case["shapes"])
        T = []
        for k, (shape, vals) in enumerate(zip(case["shapes"], case["X"])):
            arr = qarr(vals, shape, dtype)
            int_operand = case.get("intops") and k in case["intops"]
            if int_operand:
                arr = arr.astype(np.int64)
            t, base = self.mk(arr, bool(rg[k]) and not int_operand)
            self.bases[k] = base
            T.append(t)
        return T

    INT_CLOSED = {"add", "sub", "mul", "neg", "clone", "matmul", "addmm", "sum", "max", "min", "squeeze", "unsqueeze", "reshape", "flatten",
                  "movedim", "transpose", "unfold", "concat", "stack", "unbind", "getitem"}

    INT_MAY = {"div", "divc", "rdivc", "powi", "mean"}

    def int_may_pass(self, case):
        """operations that leave the integers (quotients, negative powers, means) on int64 operands: the call may be
        rejected; if it is answered, the answer is the mathematical one (never a truncated or zero result)"""
        div = []
        op = case["op"]
        if case["pol"] != "MUST" or case["kind"] != "poly" or (isinstance(case.get("a"), dict) and case["a"].get("alias")):
            return div
        if any(q[1] != 1 for vals in case["X"] for q in vals):
            return div
        sg = self.sg
        T = [sg.Tensor(qarr(vals, shape, np.float64).astype(np.int64)) for shape, vals in zip(case["shapes"], case["X"])]
        ac = argclass(case)
        try:
            with repo.quiet(), np.errstate(all="ignore"):
                out = self.caller(sg, op, case["a"], T, 0)
        except Exception:  # noqa: BLE001 - rejecting integer operands is allowed
            return div
        want = self.expected_out(case, np.dtype(np.float64))
        if not isinstance(out, sg.Tensor) or tuple(out.shape) != tuple(case["oshape"]):
            div.append(("forward_shape", "%s:shape-int64:%s" % (op, ac), "%s%s on int64 %s: shape %s, specification %s" % (op, case["a"], case["shapes"], getattr(out, "shape", None), tuple(case["oshape"]))))
        elif not np.allclose(out.data.astype(np.float64), want, rtol=1e-6, atol=1e-6):
            div.append(("forward_value", "%s:value-int64:%s" % (op, ac), "%s%s on int64 operands %s was accepted and answered %s; the mathematical result is %s" % (
                op, case["a"], case["shapes"], out.data.tolist(), want.tolist())))
        return div

    def int_pass(self, case):
        """C05 on integer-typed tensors: operations under which the integers are closed are run on int64 copies of the
        operands (when every operand value and every specified result value is an integer); shape and values must
        be the same ones, exactly.  The result dtype is not constrained (no listed property fixes it)."""
        div = []
        op = case["op"]
        if op in self.INT_MAY:
            return self.int_may_pass(case)
        if op not in self.INT_CLOSED or case["pol"] != "MUST" or case["kind"] not in ("poly", "ext") or case.get("intops"):
            return div
        if isinstance(case.get("a"), dict) and case["a"].get("alias"):
            return div
        if any(q[1] != 1 for vals in case["X"] for q in vals) or any(q[1] != 1 for q in case["out"]):
            return div
        sg = self.sg
        T = [sg.Tensor(qarr(vals, shape, np.float64).astype(np.int64)) for shape, vals in zip(case["shapes"], case["X"])]
        ac = argclass(case)
        try:
            with repo.quiet(), np.errstate(all="ignore"):
                out = self.caller(sg, op, case["a"], T, 0)
        except Exception as e:  # noqa: BLE001
            div.append(("accept", "%s:accept-int64:%s" % (op, ac), "%s%s on int64 tensors of shapes %s raised %s: %s" % (op, case["a"], case["shapes"], type(e).__name__, str(e)[:100])))
            return div
        want = self.expected_out(case, np.dtype(np.float64))
        if not isinstance(out, sg.Tensor) or tuple(out.shape) != tuple(case["oshape"]):
            div.append(("forward_shape", "%s:shape-int64:%s" % (op, ac), "%s%s on int64 %s: shape %s, specification %s" % (op, case["a"], case["shapes"], getattr(out, "shape", None), tuple(case["oshape"]))))
        elif not np.array_equal(out.data.astype(np.float64), want):
            div.append(("forward_value", "%s:value-int64:%s" % (op, ac), "%s%s on int64 %s: %s, specification %s" % (op, case["a"], case["shapes"], out.data.tolist(), want.tolist())))
        return div

    flagtable = None       # {(grad mode, (operand requires_grad...)): result requires grad} from Tape.tla (C07)
    only_flags = False

    def flags_pass(self, case):
        """C07 on every operation of the catalogue: for every subset of operands that require grad, with gradient
        tracking enabled and inside no_grad, the result's requires_grad flag is the one Tape.ResultRG prescribes; a
        result that does not require grad has no backward function, refuses backward() and no operand acquires a
        .grad; the call leaves the gradient mode as it found it."""
        sg = self.sg
        div = []
        op, K = case["op"], len(case["shapes"])
        dtype = np.dtype(np.float32)
        import itertools
        if case["pol"] == "UNDEF":
            # error path: a call that is rejected leaves the gradient modes as it found them, with tracking on and inside
            # no_grad / retain_grads blocks of the caller
            tm = repo.tensor_module()
            for gm in (True, False):
                T = self.operands(case, dtype, [True] * K)
                before = (tm.gradient__, tm.retain_grads__)
                try:
                    with repo.quiet(), np.errstate(all="ignore"):
                        if gm:
                            with sg.retain_grads():
                                inside = (tm.gradient__, tm.retain_grads__)
                                try:
                                    self.caller(sg, op, case["a"], T, 0)
                                except Exception:  # noqa: BLE001
                                    pass
                                after_in = (tm.gradient__, tm.retain_grads__)
                        else:
                            with sg.no_grad():
                                inside = (tm.gradient__, tm.retain_grads__)
                                try:
                                    self.caller(sg, op, case["a"], T, 0)
                                except Exception:  # noqa: BLE001
                                    pass
                                after_in = (tm.gradient__, tm.retain_grads__)
                finally:
                    after = (tm.gradient__, tm.retain_grads__)
                    tm.gradient__, tm.retain_grads__ = before
                if after_in != inside or after != before:
                    div.append(("flags", "%s:error-path:mode-changed" % op, "a rejected call of %s%s left (gradient mode, retain-all mode) = %s inside the caller's block (was %s) and %s after it (was %s)" % (
                        op, case["a"], after_in, inside, after, before)))
            return div
        if case["pol"] != "MUST" or not case.get("oshape") and case["kind"] == "none":
            return div
        for rg in itertools.product((False, True), repeat=K):
            for gm in (True, False):
                T = self.operands(case, dtype, list(rg))
                eff = tuple(bool(t.requires_grad) for t in T)
                want = self.flagtable[(gm, eff)]
                tm = repo.tensor_module()
                before = tm.gradient__
                try:
                    with repo.quiet(), np.errstate(all="ignore"):
                        if gm:
                            out = self.caller(sg, op, case["a"], T, 0)
                        else:
                            with sg.no_grad():
                                out = self.caller(sg, op, case["a"], T, 0)
                except Exception:  # noqa: BLE001 - acceptance is the forward part's business
                    return div
                ctxt = "%s:%s" % (op, "grad-on" if gm else "no_grad")
                if tm.gradient__ != before:
                    div.append(("flags", ctxt + ":mode-changed", "%s left the gradient mode changed" % op))
                    tm.gradient__ = before
                if not isinstance(out, sg.Tensor):
                    continue
                if bool(out.requires_grad) != want:
                    div.append(("flags", ctxt + ":requires_grad", "%s%s with operands requiring grad %s, gradient mode %s: result.requires_grad = %s, specification %s%s" % (
                        op, case["a"], list(eff), "on" if gm else "off", out.requires_grad, want, " (the result IS an operand)" if any(out is t for t in T) else "")))
                    continue
                if want:
                    if out.grad_fn is None and not any(out is t for t in T):
                        div.append(("flags", ctxt + ":no-grad_fn", "result of %s requires grad but has no backward function" % op))
                else:
                    if out.grad_fn is not None:
                        div.append(("flags", ctxt + ":grad_fn-on-nonreq", "result of %s does not require grad but carries a backward function" % op))
                    refused = False
                    try:
                        with repo.quiet(), np.errstate(all="ignore"):
                            out.backward(sg.Tensor(np.ones(out.shape, dtype=dtype)))
                    except Exception:  # noqa: BLE001
                        refused = True
                    if not refused:
                        div.append(("flags", ctxt + ":backward-accepted", "backward() on the result of %s (requires_grad False) was not refused" % op))
                    with repo.quiet():
                        acquired = out.grad is not None or any(self.grad_of(k, t) is not None for k, t in enumerate(T))
                    if acquired:
                        div.append(("flags", ctxt + ":grad-acquired", "a .grad appeared although the result of %s does not require grad" % op))
        return div

    def run(self, case, dtypes=(np.float32, np.float64), cross_g=False):
        """Returns list of (kind, key, message).  Every case is run on row-major operands; cases with an operand (or
        result) that has at least two dims larger than 1 are run again, in the library's default dtype, on
        column-major copies of the same operands and upstream gradients: values, shapes and gradients must not
        depend on the memory layout the caller's arrays happen to have."""
        self.layout = "C"
        if self.only_flags:
            return self.flags_pass(case)
        div = self.run_layout(case, dtypes, cross_g)
        div += self.int_pass(case)
        if self.flagtable is not None:
            div += self.flags_pass(case)
        if any(has_layout(s) for s in case["shapes"]) or has_layout(case.get("oshape") or ()):
            try:
                self.layout = "F"
                for kind, key, msg in self.run_layout(case, (np.float32,), False):
                    div.append((kind, key + ":colmajor", msg + " [column-major operand arrays]"))
                # operands that are results of other operations (strided views of another tensor's array)
                self.layout = "V"
                for kind, key, msg in self.run_layout(case, (np.float32,), False):
                    div.append((kind, key + ":view", msg + " [operands are transposed views of other tensors]"))
            finally:
                self.layout = "C"
        return div

    def run_layout(self, case, dtypes=(np.float32, np.float64), cross_g=False):
        div = []
        op = case["op"]
        ac = argclass(case)
        K = len(case["shapes"])
        pol = case["pol"]
        results = {}
        for dtype in dtypes:
            dtype = np.dtype(dtype)
            dn = "f32" if dtype == np.float32 else "f64"
            for variant in self.variants:
                T = self.operands(case, dtype, [False] * K)
                snaps = [snap(t) for t in T]
                try:
                    with repo.quiet(), np.errstate(all="ignore"):
                        out = self.caller(self.sg, op, case["a"], T, variant)
                    raised = None
                except Exception as e:  # noqa: BLE001 - any exception is a rejection
                    raised = type(e).__name__ + ": " + str(e)[:100]
                # operands are left alone whether the call is accepted, merely allowed, or rejected
                if [snap(t) for t in T] != snaps:
                    div.append(("operand_mutated", "%s:fwd-mutates:%s" % (op, ac), "forward of %s%s on %s modified an operand (shape / dtype / bytes): %s -> %s" % (
                        op, case["a"], case["shapes"], [x[:2] for x in snaps], [snap(t)[:2] for t in T])))
                if pol == "UNDEF":
                    if raised is None:
                        div.append(("reject", "%s:reject:%s" % (op, ac), "%s%s on shapes %s returned shape %s instead of raising" % (op, case["a"], case["shapes"], getattr(out, "shape", None))))
                    continue
                if raised is not None:
                    if pol == "MUST":
                        div.append(("accept", "%s:accept:%s" % (op, ac), "%s%s on shapes %s raised %s" % (op, case["a"], case["shapes"], raised)))
                    continue
                for nm, t_, b_ in getattr(self, "aux", ()):
                    if snap(t_) != b_:
                        div.append(("operand_mutated", "%s:fwd-mutates-%s:%s" % (op, nm, ac), "forward of %s modified %s" % (op, nm)))
                if not isinstance(out, self.sg.Tensor):
                    div.append(("forward_shape", "%s:type" % op, "result is %s, not a Tensor" % type(out)))
                    continue
                if tuple(out.shape) != tuple(case["oshape"]):
                    div.append(("forward_shape", "%s:shape:%s" % (op, ac), "%s%s on %s: shape %s, specification %s" % (op, case["a"], case["shapes"], tuple(out.shape), tuple(case["oshape"]))))
                    continue
                want = self.expected_out(case, dtype)
                if want is not None:
                    tol = RTOL[dtype] if out.data.dtype.kind == "f" else 0
                    scale = max(1.0, float(np.max(np.abs(want))) if want.size else 1.0)
                    if not np.allclose(out.data.astype(np.float64), want, rtol=tol, atol=tol * scale):
                        div.append(("forward_value", "%s:value:%s" % (op, ac), "%s%s on %s (%s): %s, specification %s" % (op, case["a"], case["shapes"], dn, out.data.tolist(), want.tolist())))
                if out.data.dtype != dtype:
                    div.append(("result_dtype", "%s:dtype:%s:%s" % (op, dn, "0d" if out.data.ndim == 0 else "nd"), "%s on %s operands returned %s" % (op, dn, out.data.dtype)))
                if variant == 0:
                    results[dn] = out.data.astype(np.float64)
                    # repeating the operation on unchanged operands gives bit-identical results (C11)
                    with repo.quiet(), np.errstate(all="ignore"):
                        out2 = self.caller(self.sg, op, case["a"], T, variant)
                    if out2.data.tobytes() != out.data.tobytes():
                        div.append(("repeat", "%s:repeat" % op, "repeating %s on unchanged operands changed the result" % op))
                    if op == "clone" and np.shares_memory(out.data, T[0].data):
                        div.append(("storage", "clone:storage", "clone() shares storage with its source"))
            if pol == "UNDEF" or "gs" not in case or not case.get("gs"):
                continue
            self.backward_part(case, dtype, dn, ac, div, cross_g)
        if "f32" in results and "f64" in results and results["f32"].shape == results["f64"].shape:
            a32, a64 = results["f32"], results["f64"]
            scale = max(1.0, float(np.max(np.abs(a64))) if a64.size else 1.0)
            if not np.allclose(a32, a64, rtol=3e-5, atol=3e-5 * scale):
                div.append(("f32_vs_f64", "%s:f32-vs-f64" % op, "float32 and float64 results of %s differ beyond single precision" % op))
        return div

    def expected_out(self, case, dtype):
        kind = case["kind"]
        if kind in ("poly", "ext"):
            return np.array([float(q2f(q)) for q in case["out"]], dtype=np.float64).reshape(tuple(case["oshape"]))
        if kind == "rterm":
            f = rfun(case["fn"], case["par"])
            xs = [mp.mpf(q[0]) / q[1] for q in case["X"][0]]
            return np.array([float(f(x)) for x in xs], dtype=np.float64).reshape(tuple(case["oshape"]))
        return None

    def expected_grads(self, case, gq):
        """per operand: np.array of expected gradient, or None when the case has sub-gradient sets"""
        kind = case["kind"]
        if kind == "poly":
            for ent in case["gs"]:
                if ent["g"] == gq:
                    return [np.array([float(q2f(q)) for q in gr], dtype=np.float64).reshape(tuple(s))
                            for gr, s in zip(ent["grads"], case["shapes"])]
            raise KeyError("gradient not found")
        if kind == "ext":
            for ent in case["gs"]:
                if ent["g"] == gq and ent.get("grads"):
                    return [np.array([float(q2f(q)) for q in ent["grads"][0]], dtype=np.float64).reshape(tuple(case["shapes"][0]))]
            return None
        if kind == "rterm":
            f = rfun(case["fn"], case["par"])
            xs = [mp.mpf(q[0]) / q[1] for q in case["X"][0]]
            gs = [mp.mpf(q[0]) / q[1] for q in gq]
            return [np.array([float(g * mp.diff(f, x)) for g, x in zip(gs, xs)], dtype=np.float64).reshape(tuple(case["shapes"][0]))]
        return None

    def backward_part(self, case, dtype, dn, ac, div, cross_g):
        sg = self.sg
        op = case["op"]
        K = len(case["shapes"])
        gdtypes = [dtype] + ([np.dtype(np.float64) if dtype == np.float32 else np.dtype(np.float32)] if cross_g else [])
        alias_case = isinstance(case.get("a"), dict) and case["a"].get("alias")
        for rg in ([[True] * K] if alias_case else case["rgsets"]):
            for gi, ent in enumerate(case["gs"]):
                for gdt in (gdtypes if gi == 0 else gdtypes[:1]):
                    T = self.operands(case, dtype, rg)
                    try:
                        with repo.quiet(), np.errstate(all="ignore"):
                            out = self.caller(sg, op, case["a"], T, 0)
                    except Exception:  # noqa: BLE001 - the forward call was not accepted: reported by the forward part
                        return
                    if tuple(out.shape) != tuple(case["oshape"]):
                        return
                    g = sg.Tensor(self.lay(qarr(ent["g"], case["oshape"], gdt)))
                    aux = list(getattr(self, "aux", ()))
                    snaps = [snap(t) for t in T]
                    gsnap = snap(g)
                    if not out.requires_grad:
                        div.append(("flags", "%s:result-not-rg" % op, "result of %s does not require grad although an operand does" % op))
                        return
                    try:
                        with repo.quiet(), np.errstate(all="ignore"):
                            out.backward(g)
                    except Exception as e:  # noqa: BLE001
                        div.append(("backward_error", "%s:bwd-raises:%s" % (op, ac), "backward of %s%s on %s raised %s: %s" % (op, case["a"], case["shapes"], type(e).__name__, str(e)[:100])))
                        return
                    if [snap(t) for t in T] != snaps:
                        div.append(("operand_mutated", "%s:bwd-mutates:%s" % (op, ac), "backward of %s modified an operand" % op))
                    for nm, t_, b_ in aux:
                        if snap(t_) != b_:
                            div.append(("operand_mutated", "%s:bwd-mutates-%s:%s" % (op, nm, ac), "backward of %s modified %s" % (op, nm)))
                    if snap(g) != gsnap:
                        div.append(("g_mutated", "%s:g-mutated" % op, "backward of %s modified the caller's gradient" % op))
                    want = self.expected_grads(case, ent["g"])
                    alias = isinstance(case.get("a"), dict) and case["a"].get("alias")
                    if alias and want is not None:
                        tot = want[0]
                        for w_ in want[1:]:
                            tot = tot + w_
                        want = [tot] * K          # the shared tensor receives the sum over the operand positions
                    for k in (range(1) if alias else range(K)):
                        t = T[k]
                        if not rg[k]:
                            if self.grad_of(k, t) is not None:
                                div.append(("grad_value", "%s:grad-on-nonreq:%s" % (op, ac), "operand %d of %s does not require grad but has a .grad" % (k, op)))
                            continue
                        gr = self.grad_of(k, t)
                        if gr is None:
                            div.append(("grad_value", "%s:grad-missing:%s" % (op, ac), "operand %d of %s%s requires grad but .grad is None" % (k, op, case["a"])))
                            continue
                        if tuple(gr.shape) != tuple(t.shape):
                            div.append(("grad_shape", "%s:grad-shape:%s" % (op, ac), "operand %d of %s%s: .grad shape %s, operand shape %s" % (k, op, case["a"], gr.shape, t.shape)))
                            continue
                        if gr.data.dtype != t.data.dtype:
                            div.append(("grad_dtype", "%s:grad-dtype:%s:g=%s" % (op, dn, "same" if gdt == dtype else "other"), "operand %d of %s (%s, upstream %s): .grad dtype %s" % (k, op, dn, gdt, gr.data.dtype)))
                        # an upstream gradient of the other dtype limits the accuracy to single precision
                        rt = max(RTOL[dtype], RTOL[np.dtype(gdt)])
                        if want is not None and hasattr(want[k], "contains"):
                            # sub-gradient box (kink of a piecewise-linear activation)
                            tol = rt * max(1.0, float(np.max(np.abs(want[k].hi))))
                            if not want[k].contains(gr.data.astype(np.float64), tol):
                                div.append(("grad_value", "%s:subgrad:%s" % (op, ac), "%s%s on %s (%s): operand %d .grad %s outside the sub-gradient set [%s, %s]" % (
                                    op, case["a"], case["shapes"], dn, k, gr.data.tolist(), want[k].lo.tolist(), want[k].hi.tolist())))
                        elif want is not None:
                            tol = rt
                            scale = max(1.0, float(np.max(np.abs(want[k]))) if want[k].size else 1.0)
                            if not np.allclose(gr.data.astype(np.float64), want[k], rtol=tol, atol=tol * scale):
                                div.append(("grad_value", "%s:grad:%s" % (op, ac), "%s%s on %s (%s) upstream %s: operand %d .grad %s, specification %s" % (
                                    op, case["a"], case["shapes"], dn, [str(q2f(q)) for q in ent["g"]], k, gr.data.tolist(), want[k].tolist())))
                        elif case["kind"] == "ext":
                            msg = self.check_subgradient(case, ent["g"], gr.data.astype(np.float64).reshape(-1))
                            if msg:
                                div.append(("grad_value", "%s:subgrad:%s" % (op, ac), "%s%s on %s upstream %s: %s" % (op, case["a"], case["shapes"], [str(q2f(q)) for q in ent["g"]], msg)))
                    # a second sweep over the same recorded graph contributes the same vector-Jacobian product again
                    # (whatever the first sweep saved or cached must still be intact)
                    if gi == 0 and gdt == dtype and self.layout == "C":
                        first = [None if self.grad_of(k, t) is None else self.grad_of(k, t).data.astype(np.float64).copy() for k, t in enumerate(T)]
                        try:
                            with repo.quiet(), np.errstate(all="ignore"):
                                out.backward(g)
                        except Exception as e:  # noqa: BLE001
                            div.append(("backward_error", "%s:second-bwd-raises:%s" % (op, ac), "second backward over the graph of %s%s raised %s: %s" % (op, case["a"], type(e).__name__, str(e)[:100])))
                            return
                        for k in (range(1) if alias else range(K)):
                            if not rg[k] or first[k] is None:
                                continue
                            g2 = self.grad_of(k, T[k])
                            if g2 is None:
                                continue
                            rt = RTOL[dtype]
                            scale = max(1.0, float(np.max(np.abs(first[k]))) if first[k].size else 1.0)
                            if g2.data.shape != first[k].shape or not np.allclose(g2.data.astype(np.float64), 2 * first[k], rtol=4 * rt, atol=4 * rt * scale):
                                div.append(("second_backward", "%s:second-backward:%s" % (op, ac), "%s%s on %s (%s): after a second backward(g) operand %d holds %s, twice the first result is %s" % (
                                    op, case["a"], case["shapes"], dn, k, g2.data.tolist(), (2 * first[k]).tolist())))
                        # operands that do NOT require grad but still hold a gradient from earlier (a parameter frozen after it
                        # was trained) are outside the graph being differentiated: the sweep leaves that gradient alone (C11)
                        if not all(rg) and not alias:
                            T4 = self.operands(case, dtype, rg)
                            held = {}
                            try:
                                with repo.quiet(), np.errstate(all="ignore"):
                                    for k4, t4 in enumerate(T4):
                                        if not rg[k4] and t4.data.dtype.kind == "f" and self.bases.get(k4) is None:
                                            t4.requires_grad = True
                                            (t4 * 1.0).sum().backward()
                                            t4.requires_grad = False
                                            held[k4] = snap(t4.grad)
                                    out4 = self.caller(sg, op, case["a"], T4, 0)
                                    out4.backward(sg.Tensor(qarr(ent["g"], case["oshape"], gdt)))
                                for k4, before4 in held.items():
                                    g4 = T4[k4].grad
                                    if g4 is None or snap(g4) != before4:
                                        div.append(("outside_grad", "%s:frozen-operand-grad-changed:%s" % (op, ac), "%s%s on %s: operand %d does not require grad but held a gradient; after backward it changed from %s to %s" % (
                                            op, case["a"], case["shapes"], k4, np.frombuffer(before4[2], dtype=before4[1]).tolist(), None if g4 is None else g4.data.tolist())))
                            except Exception:  # noqa: BLE001 - flipping requires_grad on this operand is not possible: nothing to check
                                pass
                        # the vector-Jacobian product is linear in g: tiny and large upstream gradients scale the result
                        # exactly (powers of two), nothing is dropped as "negligible" or clipped
                        for c in (2.0 ** -40, 2.0 ** 20):
                            T3 = self.operands(case, dtype, rg)
                            try:
                                with repo.quiet(), np.errstate(all="ignore"):
                                    out3 = self.caller(sg, op, case["a"], T3, 0)
                                    out3.backward(sg.Tensor(qarr(ent["g"], case["oshape"], gdt) * np.asarray(c, dtype=gdt)))
                            except Exception as e:  # noqa: BLE001
                                div.append(("backward_error", "%s:scaled-bwd-raises:%s" % (op, ac), "backward of %s with the upstream gradient scaled by %g raised %s" % (op, c, type(e).__name__)))
                                break
                            for k in (range(1) if alias else range(K)):
                                if not rg[k] or first[k] is None:
                                    continue
                                g3 = self.grad_of(k, T3[k])
                                if g3 is None:
                                    continue
                                rt = RTOL[dtype]
                                scale = max(1.0, float(np.max(np.abs(first[k]))) if first[k].size else 1.0)
                                if g3.data.shape != first[k].shape or not np.allclose(g3.data.astype(np.float64), c * first[k], rtol=4 * rt, atol=4 * rt * scale * c):
                                    div.append(("grad_value", "%s:scaled-g:%s" % (op, ac), "%s%s on %s (%s): upstream gradient scaled by %g gives operand %d .grad %s, %g times the unscaled result is %s" % (
                                        op, case["a"], case["shapes"], dn, c, k, g3.data.tolist(), c, (c * first[k]).tolist())))

    @staticmethod
    def check_subgradient(case, gq, grad):
        """max/min/max-pool with ties: each group distributes its upstream gradient as a convex combination over
        its tie set.  Groups may overlap (pooling windows), so the necessary conditions checked are: nothing outside
        the tie sets, the total is preserved, and - when a single group carries the gradient - the per-group condition."""
        g = [float(q2f(q)) for q in gq]
        allowed = np.zeros(grad.shape[0], dtype=bool)
        for ties in case["ties"]:
            allowed[[i - 1 for i in ties]] = True
        if np.any(np.abs(grad[~allowed]) > 1e-6):
            return "gradient outside the arg-extremum positions: %s" % grad.tolist()
        if abs(grad.sum() - sum(g)) > 1e-5 * max(1.0, sum(abs(x) for x in g)):
            return "gradient sums to %s, upstream gradient sums to %s" % (grad.sum(), sum(g))
        nz = [j for j, v in enumerate(g) if v != 0]
        if len(nz) == 1:
            j = nz[0]
            idx = [i - 1 for i in case["ties"][j]]
            part = grad[idx]
            if np.any(part / g[j] < -1e-6) or abs(part.sum() - g[j]) > 1e-5 * max(1, abs(g[j])):
                return "group %d: not a convex combination over its tie set: %s" % (j, part.tolist())
            rest = np.ones(grad.shape[0], dtype=bool)
            rest[idx] = False
            if np.any(np.abs(grad[rest]) > 1e-6):
                return "gradient outside the tie set of the only active group"
        return None
