"""Executes a program of spec/Rng.tla on the real library and returns one SHA-256 per step.
Also usable as a child process:  python -m harness.rng_prog <repo> <json programs>  (prints JSON)."""
import hashlib
import json
import sys

import numpy as np


def h(*arrays):
    m = hashlib.sha256()
    for a in arrays:
        a = np.ascontiguousarray(a)
        m.update(str(a.dtype).encode() + str(a.shape).encode() + a.tobytes())
    return m.hexdigest()


def run_program(sg, hist, junk=0):
    nn = sg.nn
    out = []
    keep = []
    for call in hist:
        if junk:
            keep.append([object() for _ in range(junk)])      # perturb the allocation layout
        if call["a"] == "seed":
            sg.manual_seed(call["s"])
            out.append(None)
            continue
        api = call["api"]
        if api == "rand":
            out.append(h(sg.rand(3, 2).data))
        elif api == "randn":
            out.append(h(sg.randn((2, 3)).data))
        elif api == "normal":
            out.append(h(sg.normal(1.0, 2.0, 4).data))
        elif api == "randint":
            out.append(h(sg.randint(0, 10, (5,)).data))
        elif api == "init":
            t = sg.empty(3, 4)
            nn.init.uniform_(t, -1, 1)
            u = sg.empty(3, 4)
            nn.init.xavier_normal_(u)
            v = sg.empty(2, 3, 2)
            nn.init.kaiming_uniform_(v)
            out.append(h(t.data, u.data, v.data))
        elif api == "layers":
            l1 = nn.Linear(3, 2)
            c1 = nn.Conv2d(1, 2, 3)
            c2 = nn.Conv1d(2, 1, 2)
            out.append(h(l1.weight.data, l1.bias.data, c1.weight.data, c1.bias.data, c2.weight.data))
        elif api == "dropout":
            d = nn.Dropout(0.4)
            x = sg.Tensor(np.arange(24, dtype=np.float32).reshape(4, 6) + 1, requires_grad=True)
            y = d(x)
            y.backward(sg.ones_like(y.data))
            out.append(h(y.data, x.grad.data))
        elif api == "onehot":
            # class labels that are strings / floats / negative ints: the column of a class is its rank among the sorted
            # distinct labels - never an artefact of hashing
            from synapgrad.nn.utils.data import one_hot_encode
            o1 = np.asarray(one_hot_encode(np.array(["cat", "dog", "bird", "dog", "emu", "cat", "ant"])))
            o2 = np.asarray(one_hot_encode(np.array([2.5, -1.0, 2.5, 7.25, 0.0])))
            o3 = np.asarray(one_hot_encode(np.array([-3, 11, 4, -3, 1000003, 4])))
            out.append(h(o1.astype(np.float64), o2.astype(np.float64), o3.astype(np.float64)))
        elif api == "fanout":
            # one tensor consumed by many operations under different operands of multi-operand ops: its gradient is a sum
            # of several contributions, and floating-point addition is not associative - the order must not depend on
            # object addresses / hash seeds / what was allocated before
            w = sg.randn(5, 4, requires_grad=True)
            xin = sg.Tensor(np.linspace(-1.3, 0.7, 15, dtype=np.float32).reshape(3, 5) ** 3)
            live = [sg.randn(3) for _ in range(7)]      # (unrelated live objects)
            t1 = (xin @ w).sum() * 0.37
            t2 = (w * w).sum() * 1.13
            t3 = w.exp().sum() * 0.71
            t4 = (w * 0.219).sum()
            t5 = sg.stack([w, w * 1.7, w]).sum() * 0.93
            loss = ((t1 + t2) + (t3 + t4)) + t5 + sg.concat([w, w * w], 1).mean()
            loss.backward()
            opt = sg.optim.SGD([w], lr=0.013, momentum=0.9)
            opt.step()
            out.append(h(w.grad.data, w.data, np.array(loss.data)))
            del live
        elif api == "large":
            # sizes beyond any small-tensor fast path: every random-consuming API on >= 2^16 elements
            d = nn.Dropout(0.3)
            x = sg.Tensor((np.arange(257 * 300, dtype=np.float32).reshape(257, 300) % 7) - 3, requires_grad=True)
            y = d(x)
            y.backward(sg.ones_like(y.data))
            w = sg.empty(300, 260)
            nn.init.kaiming_normal_(w)
            lin = nn.Linear(300, 280)
            out.append(h(sg.rand(260, 300).data, sg.randn((300, 257)).data, sg.normal(0.0, 1.0, 70000).data, sg.randint(0, 1000, (70000,)).data,
                         y.data, x.grad.data, w.data, lin.weight.data))
        elif api == "split":
            from synapgrad.nn.utils.data import split_dataset
            X = np.arange(20).reshape(10, 2)
            yv = np.arange(10)
            tr, te, va = split_dataset(X, yv, test_split=0.25, val_split=0.25, shuffle=True)
            out.append(h(tr[0], tr[1], te[0], te[1], va[0], va[1]))
        elif api == "tied":
            # weight tying + an order-sensitive consumer of parameters(): every parameter is re-initialised in the
            # order parameters() reports them, then two optimisation steps
            enc, dec = nn.Linear(3, 3), nn.Linear(3, 3)
            dec.weight = enc.weight
            model = nn.Sequential(enc, nn.Tanh(), dec)
            for p_ in model.parameters():
                nn.init.normal_(p_, 0.0, 0.5)
            opt = sg.optim.SGD(model.parameters(), lr=0.1, momentum=0.5)
            data = sg.Tensor(np.linspace(-1, 1, 12, dtype=np.float32).reshape(4, 3))
            for _ in range(2):
                opt.zero_grad()
                loss = nn.MSELoss()(model(data), data)
                loss.backward()
                opt.step()
            ps = model.parameters()
            out.append(h(*([p_.data for p_ in ps] + [np.array(len(ps))])))
        elif api == "cnn":
            # convolution + pooling whose windows do not tile the input (7x7 with 2x2 windows), dropout, two steps
            model = nn.Sequential(nn.Conv2d(1, 2, 2), nn.ReLU(), nn.MaxPool2d(2), nn.Flatten(), nn.Dropout(0.2), nn.Linear(18, 3))
            opt = sg.optim.SGD(model.parameters(), lr=0.05, momentum=0.5)
            data = sg.Tensor((np.linspace(-1, 1, 2 * 64, dtype=np.float32).reshape(2, 1, 8, 8) ** 3), requires_grad=True)
            labels = sg.Tensor(np.array([0, 2]))
            for _ in range(2):
                opt.zero_grad()
                loss = nn.CrossEntropyLoss()(model(data), labels)
                loss.backward()
                opt.step()
            ps = model.parameters()
            pool_in = sg.Tensor(np.arange(2 * 9, dtype=np.float32).reshape(1, 2, 9) ** 2 / 7.0, requires_grad=True)
            y = sg.nn.functional.avg_pool1d(pool_in, 4)
            y.backward(sg.ones_like(y.data))
            out.append(h(*([p_.data for p_ in ps] + [p_.grad.data for p_ in ps] + [data.grad.data, pool_in.grad.data])))
        elif api == "views":
            # the same kinds of layers on operands that are strided views / column-major arrays (outputs of transpose,
            # tensors built from ndarray.T): random data, conv1d + pooling + dropout + linear, two SGD steps
            conv, lin = nn.Conv1d(3, 2, 2, padding=1), nn.Linear(4, 2)
            drop = nn.Dropout(0.25)
            opt = sg.optim.SGD(conv.parameters() + lin.parameters(), lr=0.1)
            base = sg.randn(6, 3, 2, requires_grad=True)                       # (L, C, N) viewed as (N, C, L)
            img = sg.Tensor(np.asfortranarray(np.linspace(-2, 2, 2 * 2 * 5 * 4, dtype=np.float32).reshape(2, 2, 5, 4) ** 3), requires_grad=True)
            for _ in range(2):
                opt.zero_grad()
                hcur = nn.MaxPool1d(2)(conv(base.transpose(0, 2)))             # (2, 2, 3)
                hcur = drop(hcur).transpose(1, 2).reshape((6, 2)).transpose(0, 1)      # (2, 6) strided
                z = lin(hcur.reshape((3, 4)))
                p2 = nn.AvgPool2d(2)(img) .sum() + nn.MaxPool2d((2, 1), padding=(1, 0))(img.transpose(2, 3)).mean()
                loss = (z ** 2).mean() + p2 * 0.01
                loss.backward()
                opt.step()
            ps = conv.parameters() + lin.parameters()
            out.append(h(*([p_.data for p_ in ps] + [p_.grad.data for p_ in ps] + [base.grad.data, img.grad.data, z.data, np.array(loss.data)])))
        elif api == "train":
            model = nn.Sequential(nn.Linear(4, 5), nn.BatchNorm1d(5), nn.ReLU(), nn.Dropout(0.3), nn.Linear(5, 3))
            opt = sg.optim.Adam(model.parameters(), lr=0.05)
            crit = nn.CrossEntropyLoss()
            data = np.linspace(-1, 1, 32, dtype=np.float32).reshape(8, 4) ** 3
            labels = sg.Tensor(np.arange(8) % 3)
            order = []
            cls = sg.functional.BackwardFunction
            orig = cls.__call__

            def rec(self, *a, **k):
                order.append(self.operation)
                return orig(self, *a, **k)
            cls.__call__ = rec
            try:
                for _ in range(3):
                    opt.zero_grad()
                    loss = crit(model(sg.Tensor(data)), labels)
                    loss.backward()
                    opt.step()
            finally:
                cls.__call__ = orig
            ps = model.parameters()
            out.append(h(*([p.data for p in ps] + [p.grad.data for p in ps] + [np.array(loss.data)])) + ":" + hashlib.sha256(",".join(order).encode()).hexdigest()[:16])
        else:
            raise AssertionError(api)
    return out


if __name__ == "__main__":
    repo_path, payload = sys.argv[1], sys.argv[2]
    sys.path.insert(0, __file__.rsplit("/harness/", 1)[0])
    from harness.vlib import repo as _repo
    sg = _repo.load(repo_path)
    progs = json.load(open(payload))
    print(json.dumps([run_program(sg, p, junk=j) for p, j in progs]))
