"""Generic driver for history-style specifications (Record mode: every prefix is emitted with its
observation; maximal histories are replayed into the implementation in worker processes)."""
import json
import sys

from .vlib import core, repo, tlc

_G = {}


def prefix_key(hist):
    return json.dumps(hist, sort_keys=True)


DEFAULTS = {"NormDrop": {"Nested": False, "Eps": [1, 100000]}, "Modules": {"InitTree": "empty"}}      # constants added later: configurations written before them keep their meaning


def model_check(report, module, name, consts, invariants, properties=(), workers=16, timeout=3000, spec=None, constraints=(),
                depth=None):
    """depth: bound the exploration to behaviours of at most this many steps (TLCGet("level"))."""
    c = dict(DEFAULTS.get(module, {}), **consts)
    c["Record"] = False
    extra = ""
    constraints = list(constraints)
    if depth is not None:
        extra = "DepthBound == TLCGet(\"level\") <= %d" % depth
        constraints.append("DepthBound")
    w, cfg = tlc.make_mc(module, c, invariants=invariants, properties=properties, spec=spec, constraints=constraints, extra_defs=extra)
    res = tlc.run_tlc(module, cfg, workers=workers, wrapper=w, timeout=timeout, tag=name)
    if res.violation:
        raise core.Machinery("design-level check %s: TLC reports %s violated on the specification itself\n%s" % (name, res.violation, res.out[-3000:]))
    tlc.require_clean(res, name)
    report.tlc(res, name + " (exhaustive, all invariants)")
    print("[mc %s] %d distinct states, %.1fs" % (name, res.distinct, res.wall), file=sys.stderr)
    return res


def emit(report, module, name, consts, simulate=None, depth=None, seed=None, timeout=3000, workers=16, extra_invariants=(), limit=None):
    c = dict(DEFAULTS.get(module, {}), **consts)
    c["Record"] = True
    table = {}

    def on_case(o):
        # observations are kept as compact JSON text (parsed on demand): several times less memory than nested dicts
        table[prefix_key(o["hist"])] = json.dumps(o["obs"], separators=(",", ":"))
    w, cfg = tlc.make_mc(module, c, invariants=["Emit"] + list(extra_invariants))
    res = tlc.run_tlc(module, cfg, workers=workers, wrapper=w, on_case=on_case, simulate=simulate, depth=depth, seed=seed,
                      timeout=timeout, tag=name)
    tlc.require_clean(res, name)
    report.tlc(res, name + (" (simulation)" if simulate else " (emission of all behaviours)"))
    prefixes = set()
    for k in table:
        h = json.loads(k)
        if h:
            prefixes.add(prefix_key(h[:-1]))
    mkeys = [k for k in table if k not in prefixes]
    del prefixes
    if limit is not None and len(mkeys) > limit:
        import random
        mkeys = random.Random(seed or 0).sample(mkeys, limit)     # sampled BEFORE parsing: memory stays bounded
    maximal = [json.loads(k) for k in mkeys]
    print("[emit %s] %d behaviours (%d observations), TLC %.1fs" % (name, len(maximal), len(table), res.wall), file=sys.stderr)
    return maximal, table, c


def _worker(args):
    lo, hi = args
    import gc
    gc.freeze()
    sg = repo.load(_G["repo"])
    mod = __import__("harness." + _G["replayer"][0], fromlist=["x"])
    rp = getattr(mod, _G["replayer"][1])(sg, **_G["rkw"])
    table, consts, maximal = _G["table"], _G["consts"], _G["maximal"]
    out = []
    for idx in range(lo, hi):
        hist = maximal[idx]

        def expected(i, hist=hist):
            o = table.get(prefix_key(hist[:i]))
            if o is None:
                if _G.get("allow_missing"):
                    return None     # this variant of the specification has no such behaviour: the comparison stops here
                raise core.Machinery("no observation emitted for a prefix (emission incomplete)")
            return json.loads(o)
        out.append((idx, rp.run(hist, expected, consts)))
    return out


def replay_all(ctx, report, maximal, table, consts, kinds, replayer, spec, label="", limit=None, procs=16, rkw=None,
               raw=False, allow_missing=False):
    """raw=True: do not report; return {history key: (history, divergences of the selected kinds)}."""
    import multiprocessing as mp
    if limit is not None and len(maximal) > limit:
        import random
        maximal = random.Random(ctx.seed).sample(maximal, limit)
    _G.update(repo=ctx.repo, table=table, consts=consts, maximal=maximal, replayer=replayer, rkw=rkw or {}, allow_missing=allow_missing)
    total = len(maximal)
    chunk = max(1, min(2000, (total + procs - 1) // procs))
    jobs = [(lo, min(total, lo + chunk)) for lo in range(0, total, chunk)]
    if procs > 1 and len(jobs) > 1:
        with mp.get_context("fork").Pool(min(procs, len(jobs))) as pool:
            results = pool.map(_worker, jobs)
    else:
        results = [_worker(j) for j in jobs]
    if raw:
        out = {}
        for res in results:
            for idx, divs in res:
                out[prefix_key(maximal[idx])] = (maximal[idx], [d for d in divs if d[0] in kinds])
        return out
    for res in results:
        for idx, divs in res:
            hist = maximal[idx]
            report.case(label + "/".join(_shape(c) for c in hist))
            report.traces += 1
            if idx % 997 == 1:
                report.sample({"config": label, "history": hist}, limit=4)
            for kind, key, msg in divs:
                if kind in kinds:
                    report.violation(key, msg, {"spec": spec, "consts": _jsonable(consts), "history": hist, "divergence": [kind, key, msg],
                                                "rkw": rkw or {}})
    return total


def _shape(c):
    s = c["a"]
    for k in ("op", "kind", "via"):
        if k in c:
            s += ":" + str(c[k])
    if c["a"] == "setattr":
        s += ":" + c["x"][0]
    return s


def _jsonable(c):
    return {k: (sorted(v, key=repr) if isinstance(v, (set, frozenset)) else v) for k, v in c.items()}


def replay_file(ctx, path, kinds, module, replayer, set_consts=(), raw_consts=()):
    """--replay: re-derive the expected observations of exactly this history from the specification
    (an ACTION_CONSTRAINT makes TLC follow it) and re-execute it alone."""
    rp = json.load(open(path))["replay"]
    sg = repo.load(ctx.repo)
    c = {k: (set(v) if k in set_consts else tlc.Raw(v) if k in raw_consts else v) for k, v in rp["consts"].items()}
    c = dict(DEFAULTS.get(module, {}), **c)
    c["Record"] = True
    hist = rp["history"]
    c["MaxHist"] = max(c.get("MaxHist", 0), len(hist))
    table = {}

    def on_case(o):
        table[prefix_key(o["hist"])] = o
    extra = "Target == " + tla_hist(hist) + "\nFollow == Len(hist') <= Len(hist) \\/ (Len(hist') <= Len(Target) /\\ hist' = SubSeq(Target, 1, Len(hist')))"
    w, cfg = tlc.make_mc(module, c, invariants=["Emit"], action_constraints=["Follow"], extra_defs=extra)
    res = tlc.run_tlc(module, cfg, workers=1, wrapper=w, on_case=on_case, tag="replay")
    tlc.require_clean(res, "replay")
    mod = __import__("harness." + replayer[0], fromlist=["x"])
    r = getattr(mod, replayer[1])(sg, **(rp.get("rkw") or {}))

    def expected(i):
        o = table.get(prefix_key(hist[:i]))
        return None if o is None else o["obs"]      # None: the specification (this variant) has no such behaviour
    divs = [d for d in r.run(hist, expected, c) if d[0] in kinds]
    for d in divs:
        print("DIVERGENCE", d)
    if divs:
        print("VIOLATION property=%s replay=%s" % (ctx.pid, path))
        return 1
    print("replay: no divergence")
    return 0


def tla_hist(hist):
    def val(v):
        if isinstance(v, bool):
            return "TRUE" if v else "FALSE"
        if isinstance(v, int):
            return str(v)
        if isinstance(v, str):
            return '"%s"' % v
        if isinstance(v, list):
            return "<<" + ", ".join(val(x) for x in v) + ">>"
        if isinstance(v, dict):
            return "[" + ", ".join("%s |-> %s" % (k, val(x)) for k, x in v.items()) + "]"
        raise TypeError(v)
    return "<<" + ", ".join(val(c) for c in hist) + ">>"


def emit_many(report, module, named_consts, parallel=8, workers=2, timeout=3000):
    """Several Record-mode runs concurrently (one JVM each); returns {name: (maximal, table, consts)}."""
    from concurrent.futures import ThreadPoolExecutor
    with ThreadPoolExecutor(max_workers=parallel) as ex:
        futs = {name: ex.submit(emit, report, module, name, consts, None, None, None, timeout, workers) for name, consts in named_consts}
        return {name: f.result() for name, f in futs.items()}
