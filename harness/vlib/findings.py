"""Known findings: genuine defects of pgmesa/synapgrad that are recorded rather than repaired.

File format (/verif/known-findings.txt), one entry per line:
    known: property=<id> key=<fingerprint> <what fails>
    fixed: property=<id> <commit> <what failed>          (suppresses nothing)
A violation whose fingerprint is listed under `known:` for that property is reported as
KNOWN-FINDING and does not fail the check; anything else is a VIOLATION.  The file is never
written at run time.
"""
import os
import re

PATH = os.path.join(os.path.dirname(os.path.dirname(os.path.dirname(os.path.abspath(__file__)))), "known-findings.txt")
_LINE = re.compile(r"^known:\s+property=(\S+)\s+key=(\S+)\s+(.*)$")


def load(path=PATH):
    known = {}
    if os.path.exists(path):
        for line in open(path):
            m = _LINE.match(line.strip())
            if m:
                known.setdefault(m.group(1), {})[m.group(2)] = m.group(3)
    return known
