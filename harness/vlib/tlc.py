"""Running TLC / SANY from the harness and parsing what comes back.

All TLC output that the harness consumes is produced by the specification itself:
  * `PrintT(ToJson(obs))` lines (one JSON string literal per line) -> `cases`
  * the final statistics line                                      -> `generated`, `distinct`
  * `-simulate file=...` behaviour files                           -> parsed by tlaparse.py
A run that did not finish cleanly is never reported as success (callers fail closed).
"""
import atexit
import json
import os
import re
import shutil
import subprocess
import tempfile
import time

JAR = "/opt/veriftools/tla/tla2tools.jar"
DEPS = "/opt/veriftools/tla/CommunityModules-deps.jar"
SPEC_DIR = os.path.join(os.path.dirname(os.path.dirname(os.path.dirname(os.path.abspath(__file__)))), "spec")

_SCRATCH = None


def scratch():
    """Per-process scratch directory (removed at exit). Never under /repo or /verif."""
    global _SCRATCH
    if _SCRATCH is None:
        base = os.environ.get("VERIF_TMP", "/var/tmp")
        os.makedirs(base, exist_ok=True)
        _SCRATCH = tempfile.mkdtemp(prefix="verif-", dir=base)
        atexit.register(shutil.rmtree, _SCRATCH, True)
    return _SCRATCH


class TLCError(Exception):
    pass


class TLCResult:
    def __init__(self):
        self.rc = None
        self.out = ""
        self.cases = []
        self.generated = 0
        self.distinct = 0
        self.depth = 0
        self.wall = 0.0
        self.violation = None      # name of violated invariant / property, if any
        self.error = None          # any TLC evaluation error
        self.coverage = {}         # action name -> (distinct, total) when -coverage was on
        self.metadir = None
        self.cmd = ""

    @property
    def clean(self):
        return self.rc == 0 and self.error is None and self.violation is None


_STATS = re.compile(r"^(\d+) states generated, (\d+) distinct states found")
_SIMSTATS = re.compile(r"^The number of states generated: (\d+)")
_DEPTH = re.compile(r"^The depth of the complete state graph search is (\d+)")
_INV = re.compile(r"^Error: Invariant (\S+) is violated")
_PROP = re.compile(r"^Error: (Action|Temporal) propert(?:y|ies) (.*?) (?:is|were) violated")
_COV = re.compile(r"^<(\w+) line \d+, col \d+ to line \d+, col \d+ of module (\w+)>: (\d+):(\d+)")


def run_tlc(module, cfg_text, workers=1, simulate=None, depth=None, seed=None, extra=(), env=None,
            timeout=3600, heap="6g", coverage=False, dump=None, deque=False, tag=None, keep_out=True,
            on_case=None, wrapper=None, extra_files=None):
    """Run TLC on spec/<module>.tla with the given configuration text.

    on_case: optional callback invoked with every parsed JSON case (streaming; cases are then
    not accumulated in the result).
    """
    sc = scratch()
    tag = tag or module
    wd = tempfile.mkdtemp(prefix=tag + "-", dir=sc)
    cfg = os.path.join(wd, "run.cfg")
    with open(cfg, "w") as f:
        f.write(cfg_text)
    meta = os.path.join(wd, "meta")
    for fname, text in (extra_files or {}).items():      # e.g. a mutated copy of a specification module (self-test)
        with open(os.path.join(wd, fname), "w") as f:
            f.write(text)
    cmd = ["java", "-XX:+UseParallelGC", "-Xmx" + heap, "-Xss64m", "-DTLA-Library=" + SPEC_DIR]
    if deque:
        cmd.append("-Dtlc2.tool.queue.IStateQueue=StateDeque")
    cmd += ["-cp", JAR + ":" + DEPS, "tlc2.TLC", "-workers", str(workers), "-metadir", meta,
            "-noGenerateSpecTE", "-config", cfg]
    if simulate:
        cmd += ["-simulate", simulate]
    if depth is not None:
        cmd += ["-depth", str(depth)]
    if seed is not None:
        cmd += ["-seed", str(seed)]
    if coverage:
        cmd += ["-coverage", "1"]
    if dump:
        cmd += ["-dump", dump[0], dump[1]]
    cmd += list(extra)
    if wrapper is not None:
        # wrapper = (module name, module text): a generated root module (constants as definitions)
        # that EXTENDS / INSTANCEs the real specification, found through TLA-Library.
        root = os.path.join(wd, wrapper[0] + ".tla")
        with open(root, "w") as f:
            f.write(wrapper[1])
        cmd.append(root)
    else:
        cmd.append(os.path.join(SPEC_DIR, module + ".tla"))
    e = dict(os.environ)
    if env:
        e.update({k: str(v) for k, v in env.items()})
    res = TLCResult()
    res.metadir = wd
    res.cmd = " ".join(cmd)
    t0 = time.time()
    p = subprocess.Popen(cmd, stdout=subprocess.PIPE, stderr=subprocess.STDOUT, env=e, cwd=wd, text=True,
                         errors="replace")
    outl = []
    try:
        for line in p.stdout:
            if line.startswith('"{\\"') or line.startswith('"[{'):
                try:
                    obj = json.loads(json.loads(line))
                except Exception:
                    res.error = "unparsable case line: " + line[:200]
                    continue
                if on_case is not None:
                    on_case(obj)
                else:
                    res.cases.append(obj)
                continue
            if keep_out and len(outl) < 20000:
                outl.append(line)
            m = _STATS.match(line)
            if m:
                res.generated, res.distinct = int(m.group(1)), int(m.group(2))
                continue
            m = _SIMSTATS.match(line)
            if m:
                res.generated = int(m.group(1))
                res.distinct = max(res.distinct, 0)
                continue
            m = _DEPTH.match(line)
            if m:
                res.depth = int(m.group(1))
                continue
            m = _INV.match(line)
            if m:
                res.violation = m.group(1)
                continue
            m = _PROP.match(line)
            if m:
                res.violation = m.group(2)
                continue
            m = _COV.match(line)
            if m:
                res.coverage[m.group(1)] = (int(m.group(3)), int(m.group(4)))
                continue
            if line.startswith("Error:") and res.error is None and res.violation is None:
                res.error = line.strip()
            if time.time() - t0 > timeout:
                p.kill()
                res.error = "timeout after %ss" % timeout
                break
        p.wait(timeout=60)
    finally:
        if p.poll() is None:
            p.kill()
    res.rc = p.returncode
    res.out = "".join(outl)
    res.wall = time.time() - t0
    if res.rc != 0 and res.error is None and res.violation is None:
        res.error = "TLC exit code %s" % res.rc
    return res


def require_clean(res, what):
    if not res.clean:
        tail = "\n".join(res.out.splitlines()[-40:])
        raise TLCError("%s: TLC did not complete cleanly (rc=%s violation=%s error=%s)\n%s\n%s" % (
            what, res.rc, res.violation, res.error, res.cmd, tail))
    return res


def sany(module):
    cmd = ["java", "-cp", JAR + ":" + DEPS, "tla2sany.SANY", os.path.join(SPEC_DIR, module + ".tla")]
    p = subprocess.run(cmd, stdout=subprocess.PIPE, stderr=subprocess.STDOUT, text=True, cwd=scratch())
    ok = p.returncode == 0 and "Semantic errors" not in p.stdout and "Fatal errors" not in p.stdout \
        and "*** Errors" not in p.stdout and "Parse Error" not in p.stdout
    return ok, p.stdout


def run_many(jobs, parallel=16):
    """jobs: list of dicts of run_tlc kwargs. Runs them in parallel processes (threads driving
    subprocesses); returns results in order."""
    from concurrent.futures import ThreadPoolExecutor
    with ThreadPoolExecutor(max_workers=parallel) as ex:
        futs = [ex.submit(run_tlc, **j) for j in jobs]
        return [f.result() for f in futs]


def tla_value(v):
    """Python value -> TLA+ literal for cfg/ module text (ints, strings, bools, sequences, sets, dict records)."""
    if isinstance(v, bool):
        return "TRUE" if v else "FALSE"
    if isinstance(v, int):
        return str(v)
    if isinstance(v, str):
        return '"' + v + '"'
    if isinstance(v, (list, tuple)):
        return "<<" + ", ".join(tla_value(x) for x in v) + ">>"
    if isinstance(v, (set, frozenset)):
        return "{" + ", ".join(tla_value(x) for x in sorted(v, key=repr)) + "}"
    if isinstance(v, dict):
        return "[" + ", ".join("%s |-> %s" % (k, tla_value(x)) for k, x in v.items()) + "]"
    raise TypeError(v)


class Raw(str):
    """A TLA+ expression given verbatim."""


def make_mc(module, consts, invariants=(), properties=(), constraints=(), action_constraints=(),
            spec=None, init="Init", next_="Next", view=None, deadlock=False, extra_defs="", postcondition=None,
            name="MC"):
    """Build (wrapper module text, cfg text): constants become definitions MC_<name> in a generated root
    module that EXTENDS the specification (so negative numbers, sets and records are all fine)."""
    defs = []
    cfg = []
    cfg.append("SPECIFICATION %s" % spec if spec else "INIT %s\nNEXT %s" % (init, next_))
    cfg.append("CONSTANTS")
    for k, v in consts.items():
        tv = v if isinstance(v, Raw) else tla_value(v)
        defs.append("MC_%s == %s" % (k, tv))
        cfg.append("  %s <- MC_%s" % (k, k))
    for i in invariants:
        cfg.append("INVARIANT %s" % i)
    for p in properties:
        cfg.append("PROPERTY %s" % p)
    for c in constraints:
        cfg.append("CONSTRAINT %s" % c)
    for c in action_constraints:
        cfg.append("ACTION_CONSTRAINT %s" % c)
    if view:
        cfg.append("VIEW %s" % view)
    if postcondition:
        cfg.append("POSTCONDITION %s" % postcondition)
    cfg.append("CHECK_DEADLOCK %s" % ("TRUE" if deadlock else "FALSE"))
    text = "---- MODULE %s ----\nEXTENDS %s\n%s\n%s\n====\n" % (name, module, "\n".join(defs), extra_defs)
    return (name, text), "\n".join(cfg) + "\n"
