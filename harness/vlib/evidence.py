import json
import os

EVID_DIR = os.path.join(os.path.dirname(os.path.dirname(os.path.dirname(os.path.abspath(__file__)))), "evidence")


def write(pid, tier, seed, level, coverage, wall, violations, assumptions, extra=None):
    os.makedirs(EVID_DIR, exist_ok=True)
    ev = {"property_id": pid, "tier": tier, "seed": int(seed), "level": level, "coverage": coverage,
          "assumptions": assumptions, "wall_s": round(float(wall), 2), "violations": int(violations)}
    if extra:
        ev.update(extra)
    p = os.path.join(EVID_DIR, pid + ".json")
    tmp = p + ".tmp"
    with open(tmp, "w") as f:
        json.dump(ev, f, indent=1, default=_default)
    os.replace(tmp, p)
    return p


def _default(o):
    try:
        import numpy as np
        if isinstance(o, np.generic):
            return o.item()
        if isinstance(o, np.ndarray):
            return o.tolist()
    except Exception:
        pass
    return repr(o)
