"""Importing the implementation under test from the working tree given by --repo."""
import importlib
import io
import os
import sys
import contextlib

_loaded = {}


def load(repo="/repo"):
    """Import synapgrad from `repo` (fresh interpreter assumed). Returns the package."""
    repo = os.path.abspath(repo)
    if "sg" in _loaded:
        if _loaded["repo"] != repo:
            raise RuntimeError("synapgrad already imported from %s" % _loaded["repo"])
        return _loaded["sg"]
    sys.dont_write_bytecode = True
    stubs = os.path.join(os.path.dirname(os.path.dirname(os.path.abspath(__file__))), "stubs")
    try:
        import pkbar  # noqa: F401  (broken in this image: needs pkg_resources)
    except Exception:
        sys.modules.pop("pkbar", None)
        sys.path.insert(0, stubs)
    sys.path.insert(0, repo)
    import synapgrad
    f = os.path.abspath(synapgrad.__file__)
    if not f.startswith(repo + os.sep):
        raise RuntimeError("synapgrad imported from %s, expected under %s" % (f, repo))
    _loaded["sg"] = synapgrad
    _loaded["repo"] = repo
    return synapgrad


def tensor_module():
    """The module object synapgrad.tensor (the attribute of that name on the package is the
    function `tensor`, so go through sys.modules)."""
    return sys.modules["synapgrad.tensor"]


@contextlib.contextmanager
def quiet():
    """Swallow the library's prints (e.g. the non-leaf .grad warning)."""
    old = sys.stdout
    sys.stdout = io.StringIO()
    try:
        yield
    finally:
        sys.stdout = old
