"""Check framework: context, report, exit-code policy (0 held / 1 violation / 2 machinery failure)."""
import hashlib
import json
import os
import sys
import time
import traceback

from . import evidence, findings

ROOT = os.path.dirname(os.path.dirname(os.path.dirname(os.path.abspath(__file__))))
REPLAY_DIR = os.path.join(ROOT, "replays")


class Machinery(Exception):
    """The verification machinery itself failed (TLC error, nothing replayed, import failure)."""


class Ctx:
    def __init__(self, pid, tier, seed, repo, replay=None, opts=None):
        self.pid, self.tier, self.seed, self.repo, self.replay = pid, tier, seed, repo, replay
        self.opts = opts or {}
        self.t0 = time.time()

    @property
    def quick(self):
        return self.tier == "quick"


class Report:
    def __init__(self, ctx, level, assumptions=()):
        self.ctx = ctx
        self.level = level
        self.assumptions = list(assumptions)
        self.evaluations = 0
        self.nontrivial = set()
        self.states = 0
        self.transitions = 0
        self.traces = 0
        self.samples = []
        self.violations = {}      # key -> (message, replay object, count)
        self.known_hits = {}      # key -> count
        self.masked = 0
        self.extra = {}
        self.rule = ""
        self.exhaustive = None
        self.tlc_runs = []
        self._known = findings.load().get(ctx.pid, {})

    # ---- bookkeeping -------------------------------------------------------------------
    def tlc(self, res, what):
        self.states += res.distinct
        self.transitions += res.generated
        self.tlc_runs.append({"what": what, "generated": res.generated, "distinct": res.distinct,
                              "depth": res.depth, "wall_s": round(res.wall, 1)})

    def case(self, key=None):
        self.evaluations += 1
        if key is not None:
            self.nontrivial.add(key)

    def sample(self, obj, limit=6):
        if len(self.samples) < limit:
            self.samples.append(obj)

    def violation(self, key, msg, replay=None):
        """key: fingerprint of the failure class (used for known-finding matching)."""
        if key in self._known:
            self.known_hits[key] = self.known_hits.get(key, 0) + 1
            self.masked += 1
            return
        if key in self.violations:
            m, r, c = self.violations[key]
            self.violations[key] = (m, r, c + 1)
        else:
            self.violations[key] = (msg, replay, 1)

    # ---- finish ------------------------------------------------------------------------
    def finish(self):
        ctx = self.ctx
        wall = time.time() - ctx.t0
        if self.evaluations == 0:
            raise Machinery("nothing was explored / replayed (fail closed)")
        cov = {
            "evaluations": self.evaluations,
            "distinct_nontrivial": len(self.nontrivial),
            "rule": self.rule,
            "samples": self.samples or ["(no sample recorded)"],
            "states": self.states,
            "transitions": self.transitions,
            "traces_validated_against_impl": self.traces,
            "tlc_runs": self.tlc_runs,
            "masked_by_known": self.masked,
        }
        if self.exhaustive is not None:
            cov["exhaustive"] = bool(self.exhaustive)
        cov.update(self.extra)
        nviol = sum(c for (_, _, c) in self.violations.values())
        evidence.write(ctx.pid, ctx.tier, ctx.seed, self.level, cov, wall, nviol, self.assumptions)
        for key, n in sorted(self.known_hits.items()):
            print("KNOWN-FINDING: property=%s key=%s %s (hit %d times)" % (ctx.pid, key, self._known[key], n))
        if self.violations:
            os.makedirs(REPLAY_DIR, exist_ok=True)
            for key, (msg, replay, c) in sorted(self.violations.items()):
                h = hashlib.sha1(key.encode()).hexdigest()[:10]
                path = os.path.join(REPLAY_DIR, "%s-%s.json" % (ctx.pid, h))
                with open(path, "w") as f:
                    json.dump({"property": ctx.pid, "key": key, "message": msg, "count": c, "replay": replay},
                              f, indent=1, default=evidence._default)
                print("VIOLATION property=%s replay=%s" % (ctx.pid, path))
                print("  key=%s count=%d :: %s" % (key, c, str(msg)[:600]))
            return 1
        print("OK property=%s tier=%s evaluations=%d distinct=%d states=%d traces=%d wall=%.1fs" % (
            ctx.pid, ctx.tier, self.evaluations, len(self.nontrivial), self.states, self.traces, wall))
        return 0


def main_wrapper(fn, ctx):
    try:
        rc = fn(ctx)
    except Machinery as e:
        print("MACHINERY-FAILURE property=%s: %s" % (ctx.pid, e))
        return 2
    except Exception:
        traceback.print_exc()
        print("MACHINERY-FAILURE property=%s: unexpected exception" % ctx.pid)
        return 2
    return rc
