"""C16 - im2col / col2im variants agree and col2im is the exact adjoint of im2col.

spec/ConvGeom.tla defines im2col by the window index map (both layouts, visible pad value) and col2im
as the TRANSPOSE of im2col's incidence relation; TLC checks Adjoint and FoldUnfoldCount on every
enumerated geometry (invariant GeomFacts) and emits the expected matrices.  The driver runs the three
im2col implementations, the three col2im implementations, extract_windows and place_windows of
synapgrad.conv_tools on every case: each must equal the specification (hence each other); on seeded
real-valued x, y the inner-product identity <im2col(x), y> = <x, col2im(y)> is checked for every
variant, and fold(unfold(1)) must equal the specification's cover count."""
import json
from fractions import Fraction

import numpy as np

from ..vlib import core, repo
from .. import cat_common as CC


def arr(vals, shape):
    return np.array([float(Fraction(q[0], q[1])) for q in vals], dtype=np.float64).reshape(tuple(shape))


def geom(g, squash):
    kw = dict(kernel_size=tuple(g["k"]), dilation=tuple(g["d"]), stride=tuple(g["s"]), padding=tuple(g["p"]))
    if squash:
        kw = {k: (v[0] if len(set(v)) == 1 and k != "kernel_size" else v) for k, v in kw.items()}
    return kw


def tag(g):
    t = []
    if any(d > 1 for d in g["d"]):
        t.append("dilated")
    if any(p > 0 for p in g["p"]):
        t.append("padded")
    if any(s > 1 for s in g["s"]):
        t.append("strided")
    if g["k"][0] != g["k"][1] or g["s"][0] != g["s"][1] or g["p"][0] != g["p"][1] or g["d"][0] != g["d"][1]:
        t.append("nonsquare")
    return ",".join(t) or "plain"


def check_case(ct, case, seed):
    """returns list of (key, message); every case on row-major and on column-major copies of the same arrays"""
    global arr
    out = check_case_layout(ct, case, seed)
    arr0 = arr
    try:
        arr = lambda vals, shape: np.asfortranarray(arr0(vals, shape))      # noqa: E731  (rank >= 2 always here)
        out += [(k + ":colmajor", m + " [column-major input array]") for k, m in check_case_layout(ct, case, seed, "F")]
    finally:
        arr = arr0
    return out


def check_case_layout(ct, case, seed, layout="C"):
    out = []
    a, g = case["a"], case["a"]["g"]
    rng = np.random.RandomState(seed)
    if case["op"] == "im2col":
        xs = case["shapes"][0]
        x = arr(case["X"][0], xs)
        pv = float(Fraction(a["padv"][0], a["padv"][1]))
        unf = a["layout"] == "unfold"
        for name in ("im2col", "im2col_v2", "im2col_fast", "extract_windows"):
            for sq in (False, True):
                kw = geom(g, sq)
                try:
                    if name == "extract_windows":
                        w = ct.extract_windows(x, kw["kernel_size"], step=kw["stride"], padding=kw["padding"], dilation=kw["dilation"], pad_value=pv)
                        lH, lW, N, Cn, kH, kW = w.shape
                        got = np.moveaxis(w.reshape(lH * lW, N, Cn * kH * kW), 0, 2)
                        if not unf:
                            got = got.transpose(1, 2, 0).reshape(Cn * kH * kW, -1)
                    else:
                        got = getattr(ct, name)(x, pad_value=pv, as_unfold=unf, **kw)
                    raised = None
                except Exception as e:  # noqa: BLE001
                    raised = type(e).__name__ + ": " + str(e)[:80]
                key = "%s:%s:%s" % (name, a["layout"], tag(g))
                if case["pol"] == "UNDEF":
                    continue      # C16 speaks about geometries with a non-empty output only
                if raised is not None:
                    out.append((key + ":raised", "%s on %s with %s raised %s" % (name, xs, kw, raised)))
                    continue
                want = arr(case["out"], case["oshape"])
                if tuple(got.shape) != tuple(want.shape) or not np.array_equal(np.asarray(got, dtype=np.float64), want):
                    out.append((key + ":value", "%s on x%s with %s: %s, specification %s" % (name, xs, kw, np.asarray(got).tolist(), want.tolist())))
        if case["pol"] != "UNDEF" and unf and a["padv"][0] == 0:
            # cover count and adjointness
            kw = geom(g, False)
            ones = np.ones(tuple(xs), order=layout)
            cover = np.array(case["cover"], dtype=np.float64).reshape(tuple(xs))
            xr = np.array(rng.randn(*xs), order=layout)
            for i2c, c2i in (("im2col", "col2im"), ("im2col_v2", "col2im_v2"), ("im2col_fast", "col2im_fast")):
                cols = getattr(ct, i2c)(ones, as_unfold=True, **kw)
                back = getattr(ct, c2i)(cols, tuple(xs), **kw)
                if not np.array_equal(back, cover):
                    out.append(("%s:cover:%s" % (c2i, tag(g)), "fold(unfold(1)) = %s, cover count %s" % (back.tolist(), cover.tolist())))
                cx = getattr(ct, i2c)(xr, as_unfold=True, **kw)
                yr = np.array(rng.randn(*cx.shape), order=layout)
                lhs = float((cx * yr).sum())
                rhs = float((xr * getattr(ct, c2i)(yr, tuple(xs), **kw)).sum())
                if abs(lhs - rhs) > 1e-9 * max(1.0, abs(lhs)):
                    out.append(("%s:adjoint:%s" % (c2i, tag(g)), "<im2col(x), y> = %r but <x, col2im(y)> = %r" % (lhs, rhs)))
    else:
        ys = case["shapes"][0]
        y = arr(case["X"][0], ys)
        xs = a["xs"]
        for name in ("col2im", "col2im_v2", "col2im_fast", "place_windows"):
            forms = [tuple(xs)] + ([tuple(a["osize"])] if a["layout"] == "unfold" else [])
            for oshape in forms:
                kw = geom(g, False)
                try:
                    if name == "place_windows":
                        N, Cn = xs[0], xs[1]
                        kH, kW = g["k"]
                        lH, lW = case["a"].get("lhw", (None, None))
                        L = ys[2] if a["layout"] == "unfold" else ys[1] // N
                        yy = y if a["layout"] == "unfold" else y.reshape(Cn * kH * kW, L, N).transpose(2, 0, 1)
                        osz = ct.get_conv2d_output_size(tuple(xs), kw["kernel_size"], kw["dilation"], kw["stride"], kw["padding"])
                        w = np.moveaxis(yy, 2, 0).reshape(osz[0], osz[1], N, Cn, kH, kW)
                        got = ct.place_windows(w, tuple(xs), kw["kernel_size"], kw["stride"], kw["padding"], kw["dilation"])
                    else:
                        got = getattr(ct, name)(y, oshape, **kw)
                    raised = None
                except Exception as e:  # noqa: BLE001
                    raised = type(e).__name__ + ": " + str(e)[:80]
                key = "%s:%s:%s" % (name, a["layout"], tag(g))
                if raised is not None:
                    out.append((key + ":raised", "%s on y%s -> %s with %s raised %s" % (name, ys, oshape, kw, raised)))
                    continue
                want = arr(case["out"], case["oshape"])
                if tuple(got.shape) != tuple(want.shape) or not np.array_equal(np.asarray(got, dtype=np.float64), want):
                    out.append((key + ":value", "%s on y%s with %s: %s, specification %s" % (name, ys, kw, np.asarray(got).tolist(), want.tolist())))
    return out


def sibling(xs, g):
    """a second geometry with the same channels, kernel, dilation and number of windows per axis as (xs, g) but
    another stride and padding (the image is resized accordingly)"""
    k, d, s, p = g["k"], g["d"], g["s"], g["p"]
    sp = xs[2:]
    cnt = [(sp[a] + 2 * p[a] - d[a] * (k[a] - 1) - 1) // s[a] + 1 for a in range(2)]
    s2 = [s[0] + 1, s[1] + 2]
    p2 = [1 - min(p[0], 1), p[1]]
    sp2 = [(cnt[a] - 1) * s2[a] + d[a] * (k[a] - 1) + 1 - 2 * p2[a] for a in range(2)]
    if min(sp2) < 1:
        return None
    return list(xs[:2]) + sp2, dict(k=k, d=d, s=s2, p=p2)


def check_pair(ct, case, seed):
    """The routines are functions of their arguments: after a call on one geometry, a call on a sibling geometry
    (same kernel, dilation, channels and window grid; other stride, padding, image size) must still give identical
    matrices in all implementations, identical images back, and the cover count."""
    out = []
    if case["op"] != "im2col" or case["pol"] != "MUST" or case["a"]["layout"] != "unfold":
        return out
    xs, g = case["shapes"][0], case["a"]["g"]
    sib = sibling(xs, g)
    if sib is None:
        return out
    xs2, g2 = sib
    rng = np.random.RandomState(seed)
    xa = arr(case["X"][0], xs)
    xb = rng.randint(-9, 10, size=tuple(xs2)).astype(np.float64)
    kwa, kwb = geom(g, False), geom(g2, False)
    key = "history:%s" % tag(g)
    try:
        for name in ("im2col", "im2col_v2", "im2col_fast"):
            getattr(ct, name)(xa, as_unfold=True, **kwa)
        cols = {name: getattr(ct, name)(xb, as_unfold=True, **kwb) for name in ("im2col", "im2col_v2", "im2col_fast")}
        for name in ("im2col_v2", "im2col_fast"):
            if cols[name].shape != cols["im2col"].shape or not np.array_equal(cols[name], cols["im2col"]):
                out.append((key + ":im2col-variants-differ", "after a call on x%s %s, im2col and %s disagree on x%s %s" % (xs, kwa, name, xs2, kwb)))
        ya = rng.randint(-5, 6, size=getattr(ct, "im2col")(xa, as_unfold=True, **kwa).shape).astype(np.float64)
        for name in ("col2im", "col2im_v2", "col2im_fast"):
            getattr(ct, name)(ya, tuple(xs), **kwa)
        yb = rng.randint(-5, 6, size=cols["im2col_v2"].shape).astype(np.float64)
        imgs = {name: getattr(ct, name)(yb, tuple(xs2), **kwb) for name in ("col2im", "col2im_v2", "col2im_fast")}
        for name in ("col2im_v2", "col2im_fast"):
            if imgs[name].shape != imgs["col2im"].shape or not np.array_equal(imgs[name], imgs["col2im"]):
                out.append((key + ":col2im-variants-differ", "after a call on y of x%s %s, col2im and %s disagree on the sibling x%s %s" % (xs, kwa, name, xs2, kwb)))
        # <im2col(x), y> = <x, col2im(y)> on the sibling, per implementation
        for i2c, c2i in (("im2col", "col2im"), ("im2col_v2", "col2im_v2"), ("im2col_fast", "col2im_fast")):
            lhs = float((cols[i2c] * yb).sum())
            rhs = float((xb * imgs[c2i]).sum())
            if abs(lhs - rhs) > 1e-9 * max(1.0, abs(lhs)):
                out.append((key + ":adjoint", "%s / %s on the sibling geometry: <im2col(x), y> = %r, <x, col2im(y)> = %r" % (i2c, c2i, lhs, rhs)))
    except Exception as e:  # noqa: BLE001
        out.append((key + ":raised", "sibling geometry x%s %s after x%s %s raised %s: %s" % (xs2, kwb, xs, kwa, type(e).__name__, str(e)[:80])))
    return out


def run(ctx):
    sg = repo.load(ctx.repo)
    ct = sg.conv_tools
    if ctx.replay:
        case = json.load(open(ctx.replay))["replay"]["case"]
        bad = check_case(ct, case, 1) + check_pair(ct, case, 1)
        for k, m in bad:
            print("DIVERGENCE", k, m)
        if bad:
            print("VIOLATION property=%s replay=%s" % (ctx.pid, ctx.replay))
            return 1
        print("replay: no divergence")
        return 0
    rep = core.Report(ctx, "model_checking", assumptions=[
        "geometries: pairs of per-axis (L, k, s, p, d) from the Axis2Set grid x (N, C) in NCSet; integer image ids so that comparisons are exact",
        "adjointness is a TLC invariant on the specification (transpose relation) and an inner-product identity on seeded real data for the code"])
    rep.rule = "every im2col / col2im case emitted by TLC (both layouts, pad values 0 and 7); each replayed on all variants of conv_tools with tuple and int argument forms"
    cases = CC.generate(rep, "NNCatalog", ["im2col", "col2im"], CC.nn_consts(ctx.quick), with_grad=False, timeout=20000)
    for i, case in enumerate(cases):
        rep.case("%s|%s|%s|%s" % (case["op"], json.dumps(case["a"], sort_keys=True), case["shapes"], case["pat"]))
        rep.traces += 1
        if i % 199 == 3:
            rep.sample({k: case.get(k) for k in ("op", "a", "shapes", "oshape")}, limit=4)
        for key, msg in check_case(ct, case, ctx.seed + i) + check_pair(ct, case, 1):
            rep.violation(key, msg, {"spec": "NNCatalog", "case": {k: v for k, v in case.items() if not k.startswith("_")}})
    rep.exhaustive = True
    return rep.finish()
