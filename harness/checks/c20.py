"""C20 - Trainer.fit performs one optimisation step per batch in the right mode.

spec/Trainer.tla is model-checked (StepCount, HistLen, StepGuard, EvalFrozen, ParamsOnlyInStep,
StatsOnlyInTrainFwd, GradModeRestored; liveness Terminates under fairness) for all E, NB <= 3.
Binding: code -> spec trace validation.  Real Trainer.fit / Trainer.test runs on a model with
BatchNorm and Dropout are recorded through proxies and TLC (spec/TrainerTrace.tla) decides whether
each recorded execution is a behaviour of the specification; deliberately corrupted copies of the
accepted traces must be rejected (otherwise the check fails closed).  History keys / lengths, the
epoch loss = mean of batch losses and Evaluator accuracy are compared by the driver."""
import copy
import json
import os

import numpy as np

from ..vlib import core, repo, tlc
from ..record import trainer_rec as TR

INV = ["StepCount", "HistLen", "GradModeRestored"]
PROPS = ["StepGuard", "EvalFrozen", "ParamsOnlyInStep", "StatsOnlyInTrainFwd"]


def validate(rep, traces, tag):
    """Runs TrainerTrace on a batch of traces; returns per trace (accepted, longest matched prefix, last phase)."""
    sc = tlc.scratch()
    path = os.path.join(sc, "traces-%s.json" % tag)
    with open(path, "w") as f:
        json.dump(traces, f)
    w, cfg = tlc.make_mc("TrainerTrace", dict(Cfgs=tlc.Raw("{}")), invariants=["Progress", "TraceStepCount", "StepCount", "GradModeRestored"],
                         properties=["StepGuard", "EvalFrozen", "ParamsOnlyInStep", "StatsOnlyInTrainFwd"], spec="TraceSpec")
    res = tlc.run_tlc("TrainerTrace", cfg, workers=4, wrapper=w, env={"TRACE_FILE": path}, tag="trace-" + tag, timeout=1800)
    if res.violation:
        # an invariant of the specification is violated along a recorded execution: find which trace
        return res, None
    tlc.require_clean(res, "trace validation " + tag)
    rep.tlc(res, "TrainerTrace: %d recorded traces (%s)" % (len(traces), tag))
    best = {}
    for o in res.cases:
        b = best.setdefault(o["tid"], dict(l=0, done=False, phase="?"))
        if o["l"] > b["l"]:
            b["l"], b["phase"] = o["l"], o["phase"]
        b["done"] = b["done"] or o["done"]
    return res, best


def corrupt(trace, how):
    t = copy.deepcopy(trace)
    ev = t["ev"]
    if how == "drop_zero_grad":
        i = next(i for i, e in enumerate(ev) if e["e"] == "zero_grad")
        del ev[i]
    elif how == "step_in_eval":
        i = next(i for i, e in enumerate(ev) if e["e"] == "step")
        ev[i]["tr"] = False
    elif how == "val_changes_params":
        i = next((i for i, e in enumerate(ev) if e["e"] == "ng_enter"), None)
        if i is None:
            return None
        for e in ev[i + 1:]:
            e["pv"] += 1
    elif how == "drop_epoch":
        idx = [i for i, e in enumerate(ev) if e["e"] == "epoch_end"]
        if len(idx) < 2:
            return None
        del ev[idx[0] + 1: idx[1] + 1]
    elif how == "nograd_left_on":
        i = next((i for i, e in enumerate(ev) if e["e"] == "ng_exit"), None)
        if i is None:
            return None
        for e in ev[i:]:
            e["gm"] = False
    elif how == "extra_step":
        i = next(i for i, e in enumerate(ev) if e["e"] == "step")
        ev.insert(i + 1, dict(ev[i]))
    return t


def replay_one(ctx):
    rp = json.load(open(ctx.replay))["replay"] or {}
    cfgd = rp.get("config", rp)
    sg = repo.load(ctx.repo)
    rep = core.Report(ctx, "model_checking")
    try:
        tr, info = TR.run_trainer(sg, cfgd["E"], cfgd["NB"], cfgd["NV"], cfgd.get("NT", 1), cfgd.get("evaluator", False), cfgd.get("callbacks", False), cfgd.get("seed", 1),
                                  do_fit=cfgd.get("do_fit", True), ambient=cfgd.get("ambient"), loader_kind=cfgd.get("loader_kind", "list"), fits=cfgd.get("fits", 1))
    except Exception as e:  # noqa: BLE001
        print("DIVERGENCE fit raised", type(e).__name__, e)
        print("VIOLATION property=%s replay=%s" % (ctx.pid, ctx.replay))
        return 1
    res, best = validate(rep, [tr], "replay")
    ok = best is not None and best.get(1, {}).get("done")
    print("events:", [e["e"] for e in tr["ev"]])
    print("longest matched prefix:", None if best is None else best.get(1))
    if not ok:
        print("VIOLATION property=%s replay=%s" % (ctx.pid, ctx.replay))
        return 1
    print("replay: trace accepted")
    return 0


def run(ctx):
    if ctx.replay:
        return replay_one(ctx)
    q = ctx.quick
    rep = core.Report(ctx, "model_checking", assumptions=[
        "events are observed from outside through proxies (model, optimizer, engine, criterion), a wrapper around Tensor.backward and the progress-bar object; "
        "parameter / running-statistics versions are derived from byte hashes",
        "the order zero_grad-before/after-forward is left open (only {forward, zero_grad} < backward < step is required)",
        "E, NB <= 3, NV <= 2, NT <= 2 batches; one model architecture (Linear-BatchNorm-ReLU-Dropout-Linear)"])
    rep.rule = "one recorded trace per (E, NB, NV, NT, evaluator on/off, callbacks on/off, initial mode); a trace is distinct by its configuration; negative controls = corrupted copies that must be rejected"
    sg = repo.load(ctx.repo)
    # (1) the design
    rng = 3 if q else 4
    cfgs = tlc.Raw("{[E |-> e, NB |-> nb, NV |-> nv, NT |-> nt] : e \\in 1..%d, nb \\in 1..%d, nv \\in 0..2, nt \\in 1..2}" % (rng, rng))
    w, cfg = tlc.make_mc("Trainer", dict(Cfgs=cfgs), invariants=INV, properties=PROPS)
    res = tlc.run_tlc("Trainer", cfg, workers=8, wrapper=w, timeout=1800)
    tlc.require_clean(res, "Trainer design")
    rep.tlc(res, "Trainer.tla all behaviours (safety)")
    w, cfg = tlc.make_mc("Trainer", dict(Cfgs=tlc.Raw("{[E |-> e, NB |-> nb, NV |-> nv, NT |-> 1] : e \\in 1..2, nb \\in 1..2, nv \\in 0..2}")),
                         properties=["Terminates"], spec="FitSpec")
    res = tlc.run_tlc("Trainer", cfg, workers=4, wrapper=w, timeout=1800)
    tlc.require_clean(res, "Trainer liveness")
    rep.tlc(res, "Trainer.tla liveness (fit terminates, fair spec)")
    # (2) record real runs
    traces, infos = [], []
    seed = ctx.seed
    for E in range(1, 4):
        for NB in range(1, 4):
            for NV in (0, 1, 2):
                for ev_on in (False, True):
                    for cb in ((False, "flip") if q and (E + NB + NV) % 2 else (False, True, "flip")):
                        seed += 1
                        try:
                            tr, info = TR.run_trainer(sg, E, NB, NV, 1 + (seed % 2), ev_on, cb, seed)
                        except Exception as e:  # noqa: BLE001
                            rep.case("run:%s" % ((E, NB, NV, ev_on, cb),))
                            rep.violation("fit-raised:%s:evaluator=%s:val=%s" % (type(e).__name__, ev_on, NV > 0),
                                          "Trainer.fit(E=%d, NB=%d, NV=%d, evaluator=%s) raised %s: %s" % (E, NB, NV, ev_on, type(e).__name__, str(e)[:200]),
                                          dict(E=E, NB=NB, NV=NV, evaluator=ev_on, callbacks=cb, seed=seed))
                            continue
                        traces.append(tr)
                        infos.append(info)
    # test() alone, without fit
    for NT in (1, 2):
        seed += 1
        tr, info = TR.run_trainer(sg, 1, 1, 0, NT, False, False, seed, do_fit=False)
        traces.append(tr)
        infos.append(info)
    # the caller's own gradient mode: test() inside a no_grad block of the caller (after fit, and alone); a Trainer built
    # inside a no_grad block and used outside it
    for amb, E, NB, NV, do_fit in (("test_in_no_grad", 1, 2, 1, True), ("test_in_no_grad", 1, 1, 0, False), ("ctor_in_no_grad", 2, 2, 1, True),
                                   ("ctor_in_no_grad", 1, 1, 2, True), ("ctor_in_no_grad", 1, 1, 0, False)):
        seed += 1
        try:
            tr, info = TR.run_trainer(sg, E, NB, NV, 1 + (seed % 2), False, False, seed, do_fit=do_fit, ambient=amb)
        except Exception as e:  # noqa: BLE001
            rep.case("run:%s" % ((amb, E, NB, NV, do_fit),))
            rep.violation("fit-raised:%s:ambient=%s" % (type(e).__name__, amb), "Trainer (E=%d, NB=%d, NV=%d, %s) raised %s: %s" % (E, NB, NV, amb, type(e).__name__, str(e)[:200]),
                          dict(E=E, NB=NB, NV=NV, NT=1 + (seed % 2), evaluator=False, callbacks=False, seed=seed, ambient=amb, do_fit=do_fit))
            continue
        traces.append(tr)
        infos.append(info)
    # the same Trainer fitted twice (a second training stage): the second history has one entry per epoch of the second fit
    for E, NB, NV, ev_on in ((2, 2, 1, True), (1, 3, 0, False), (2, 1, 2, "custom")):
        seed += 1
        try:
            tr, info = TR.run_trainer(sg, E, NB, NV, 1, ev_on, False, seed, fits=2)
        except Exception as e:  # noqa: BLE001
            rep.case("run:%s" % (("two-fits", E, NB, NV),))
            rep.violation("fit-raised:%s:two-fits" % type(e).__name__, "Trainer fitted twice (E=%d, NB=%d, NV=%d) raised %s: %s" % (E, NB, NV, type(e).__name__, str(e)[:200]),
                          dict(E=E, NB=NB, NV=NV, NT=1, evaluator=ev_on, callbacks=False, seed=seed, fits=2))
            continue
        traces.append(tr)
        infos.append(info)
    # user metrics (Evaluator epoch_callback / step_callback) next to the built-in accuracy, with and without validation
    for E, NB, NV in ((2, 2, 1), (1, 3, 0), (3, 1, 2)):
        seed += 1
        try:
            tr, info = TR.run_trainer(sg, E, NB, NV, 1, "custom", False, seed)
        except Exception as e:  # noqa: BLE001
            rep.case("run:%s" % (("custom-metrics", E, NB, NV),))
            rep.violation("fit-raised:%s:custom-metrics" % type(e).__name__, "Trainer (E=%d, NB=%d, NV=%d, custom evaluator callbacks) raised %s: %s" % (E, NB, NV, type(e).__name__, str(e)[:200]),
                          dict(E=E, NB=NB, NV=NV, NT=1, evaluator="custom", callbacks=False, seed=seed))
            continue
        traces.append(tr)
        infos.append(info)
    # the library's own DataLoader as the source of batches, fresh and after the caller has partially consumed it
    for lk, E, NB, NV in (("dataloader", 2, 2, 1), ("dataloader_peeked", 2, 3, 1), ("dataloader_peeked", 3, 2, 0), ("dataloader_peeked", 1, 3, 2),
                          ("list_uneven", 2, 3, 2), ("list_uneven", 1, 2, 0)):
        seed += 1
        try:
            tr, info = TR.run_trainer(sg, E, NB, NV, 1 + (seed % 2), False, False, seed, loader_kind=lk)
        except Exception as e:  # noqa: BLE001
            rep.case("run:%s" % ((lk, E, NB, NV),))
            rep.violation("fit-raised:%s:loader=%s" % (type(e).__name__, lk), "Trainer (E=%d, NB=%d, NV=%d, %s) raised %s: %s" % (E, NB, NV, lk, type(e).__name__, str(e)[:200]),
                          dict(E=E, NB=NB, NV=NV, NT=1 + (seed % 2), evaluator=False, callbacks=False, seed=seed, loader_kind=lk))
            continue
        traces.append(tr)
        infos.append(info)
    if not traces:
        raise core.Machinery("no trace recorded")
    res, best = validate(rep, traces, "real")
    if best is None:
        rep.evaluations += len(traces)
        rep.violation("trace-violates:" + str(res.violation), "a recorded execution violates %s of the specification\n%s" % (res.violation, res.out[-1500:]), None)
        return rep.finish()
    accepted = []
    for i, (tr, info) in enumerate(zip(traces, infos), start=1):
        rep.case("trace:E%d,NB%d,NV%d,NT%d,ev%s,cb%s,fit%d" % (info["E"], info["NB"], info["NV"], info["NT"], info["evaluator"], info["callbacks"], tr["fit"]))
        rep.traces += 1
        b = best.get(i, dict(l=0, done=False, phase="?"))
        if b["done"]:
            accepted.append(tr)
            if i % 17 == 1:
                rep.sample(dict(config=info, events=[e["e"] for e in tr["ev"]]), limit=3)
        else:
            nxt = tr["ev"][b["l"] - 1] if 0 < b["l"] <= len(tr["ev"]) else None
            rep.violation("trace-rejected:at=%s:phase=%s" % (nxt["e"] if nxt else "?", b["phase"]),
                          "recorded execution is not a behaviour of Trainer.tla: matched %d of %d events, stuck in phase %s at event %s (config %s)" % (
                              b["l"] - 1, len(tr["ev"]), b["phase"], nxt, tr["cfg"]), dict(config=info, trace=tr))
        # driver-level facts about the returned history
        if tr["fit"]:
            want = {"loss"} | ({"accuracy"} if info["evaluator"] else set()) | ({"error_rate"} if info["evaluator"] == "custom" else set())
            if info["NV"] > 0:
                want |= {"val_" + k for k in want}
            if set(info["history_keys"]) != want:
                rep.violation("history-keys:val=%s:ev=%s" % (info["NV"] > 0, info["evaluator"]), "history keys %s, expected %s" % (info["history_keys"], sorted(want)), info)
            for k, v in info["history"].items():
                if len(v) != info["E"]:
                    rep.violation("history-len:" + k, "history[%s] has %d entries for %d epochs" % (k, len(v), info["E"]), info)
            tl = [x for (trn, x) in info["losses"] if trn]
            for e in range(info["E"]):
                chunk = tl[e * info["NB"]:(e + 1) * info["NB"]]
                if chunk and "loss" in info["history"] and len(info["history"]["loss"]) > e and abs(np.mean(chunk) - info["history"]["loss"][e]) > 1e-5:
                    rep.violation("epoch-loss-mean", "epoch %d loss %s is not the mean of the batch losses %s" % (e, info["history"]["loss"][e], chunk), info)
            if info["callbacks"] and info["cb_calls"] != ("tv" if info["NV"] else "t") * info["E"]:
                rep.violation("callbacks", "callbacks called %s" % info["cb_calls"], info)
    # (3) negative controls: corrupted traces must be rejected
    neg, kinds = [], []
    for tr in accepted[:: max(1, len(accepted) // 6)]:
        if not tr["fit"]:
            continue
        for how in ("drop_zero_grad", "step_in_eval", "val_changes_params", "drop_epoch", "nograd_left_on", "extra_step"):
            c = corrupt(tr, how)
            if c is not None:
                neg.append(c)
                kinds.append(how)
    if accepted and neg:
        w, cfg = tlc.make_mc("TrainerTrace", dict(Cfgs=tlc.Raw("{}")), invariants=["Progress"], spec="TraceSpec")
        sc = tlc.scratch()
        path = os.path.join(sc, "traces-neg.json")
        json.dump(neg, open(path, "w"))
        res = tlc.run_tlc("TrainerTrace", cfg, workers=4, wrapper=w, env={"TRACE_FILE": path}, tag="trace-neg", timeout=1800)
        tlc.require_clean(res, "negative controls")
        done = {o["tid"] for o in res.cases if o["done"]}
        wrongly = sorted({kinds[t - 1] for t in done})
        rep.extra["negative_controls"] = dict(total=len(neg), rejected=len(neg) - len(done), kinds=sorted(set(kinds)))
        if done:
            raise core.Machinery("corrupted traces were accepted (%s): the trace specification does not bind" % wrongly)
    elif accepted and not rep.violations:
        raise core.Machinery("no negative control could be built")
    # (4) Evaluator accuracy (fraction of correct predictions under the selected label mode)
    from synapgrad.nn.utils.train import Evaluator
    for mode, outs, labels, want in (
            (Evaluator.MULTI_CLASS, [[0.1, 0.7, 0.2], [0.9, 0.05, 0.05], [0.2, 0.2, 0.6], [0.3, 0.4, 0.3]], [1, 0, 1, 1], 0.75),
            (Evaluator.CATEGORICAL, [[0.1, 0.7, 0.2], [0.9, 0.05, 0.05], [0.2, 0.2, 0.6], [0.3, 0.4, 0.3]], [[0, 1, 0], [0, 1, 0], [0, 0, 1], [1, 0, 0]], 0.5),
            (Evaluator.BINARY, [[0.9], [0.2], [0.6], [0.4]], [1, 0, 0, 0], 0.75)):
        ev = Evaluator(accuracy=True, mode=mode)
        rep.case("evaluator:" + mode)
        try:
            m = ev.step(sg.Tensor(np.array(labels, dtype=np.float32)), sg.Tensor(np.array(outs, dtype=np.float32)))
            got = dict(m)["accuracy"]
            if abs(float(got) - want) > 1e-9:
                rep.violation("evaluator:accuracy:" + mode, "Evaluator(%s) accuracy %s, expected %s" % (mode, got, want), dict(mode=mode))
        except Exception as e:  # noqa: BLE001
            rep.violation("evaluator:raised:" + mode, "Evaluator(%s).step raised %s: %s" % (mode, type(e).__name__, str(e)[:100]), dict(mode=mode))
    rep.exhaustive = False
    return rep.finish()
