"""C13 - Dropout and BatchNorm honour train/eval mode over any call history.

spec/NormDrop.tla.  BatchNorm: every history of train/eval/set-running-statistics/forward for every
constructor option (momentum None or a value, affine, track_running_stats) on 2-d, 3-d and 4-d
batches; running_mean / running_var (exact rationals) / num_batches_tracked and the output are
compared after every call, eval calls are repeated and must be bit-identical.  Dropout: the mask is
the implementation's choice; at every forward the driver selects the specification branch (mask)
that explains the output - none existing is a violation - and backward must use the same mask."""
import json

import numpy as np

from ..vlib import core, repo, tlc
from .. import hist_common as HC
from .. import replay_normdrop as RN

KINDS = {"determinism", "error", "mode", "stats", "output", "input_grad", "mask", "dtype"}


def Q(n, d=1):
    return [n, d]


def bn_history_runs(ctx, rep, kinds, acts, depth, label):
    """BatchNorm layer histories for the checks of other properties (C02: input gradients, C06: outputs)."""
    cfgs = []
    for batches, nm in ((B2[:1], "2d"), (B3, "3d")):
        for tr in (True, False):
            cfgs.append(("%s%s-tr%d" % (label, nm, tr), dict(Layer="bn", Batches=batches, NC=2, Momentum=[Q(1, 2)], Affine=True, Track=tr, Gamma=[Q(2), Q(-1)], Beta=[Q(1), Q(3)],
                                                            StatsSet=STATS, PDrop=Q(1, 2), Inputs=[], GradsIn=[], MaxHist=depth, Acts=acts)))
    # a large eps (1/2): where eps sits in the formula becomes visible
    cfgs.append(("%s2d-eps" % label, dict(Layer="bn", Batches=B2[:1], NC=2, Momentum=[Q(1, 2)], Affine=True, Track=True, Gamma=[Q(2), Q(-1)], Beta=[Q(1), Q(3)],
                                         StatsSet=STATS, PDrop=Q(1, 2), Inputs=[], GradsIn=[], MaxHist=depth, Acts=acts, Eps=Q(1, 2))))
    em = HC.emit_many(rep, "NormDrop", cfgs)
    for name, (mx, table, c) in em.items():
        HC.replay_all(ctx, rep, mx, table, dict(c, StatsSet=str(c["StatsSet"])), kinds, RP, "NormDrop", label=name + ":", procs=8)
RP = ("replay_normdrop", "BNReplayer")
PROPS = ["EvalFreezesStats", "CounterStepsByOne"]


def drop_history_runs(ctx, rep, sg, kinds, depth, mc=False, dtypes=("float32",), forms=(False,), draws=3, nested=False,
                      ps=(Q(0), Q(1, 2), Q(3, 4), Q(1)), inputs=([3, -2, 5], [1, 4]), grads=([2, -1, 3], [1, -2])):
    """Dropout histories (mode switches, forward with every mask, backward) for p in {0, 1/2, 3/4, 1}"""
    for p in ps:
        consts = dict(Layer="drop", Batches=[], NC=1, Momentum=[], Affine=False, Track=False, Gamma=[], Beta=[], StatsSet=tlc.Raw("{}"),
                      PDrop=p, Inputs=[list(x) for x in inputs], GradsIn=[list(x) for x in grads], MaxHist=depth, Acts={"mode", "fwd", "bwd"}, Nested=nested)
        if mc:
            HC.model_check(rep, "NormDrop", "drop-mc-%d-%d" % tuple(p), consts, ["DropValues"], [], depth=6)
        mx, table, c = HC.emit(rep, "NormDrop", "drop%s-%d-%d" % (("-nested" if nested else ""), p[0], p[1]), consts)
        c2 = dict(c, StatsSet="{}")
        skeletons = {}
        for h in mx:
            sk = [{k: v for k, v in call.items() if k != "m"} for call in h]
            skeletons[json.dumps(sk)] = sk
        for dt in dtypes:
            for p_int in forms:
                rp = RN.DropReplayer(sg, dtype=dt, p_int=p_int)
                for sk in skeletons.values():
                    for rep_i in range(draws):      # several draws of the implementation's mask
                        divs = rp.run(sk, lambda key: (json.loads(table[key]) if key in table else None), c2)
                        rep.case("drop:p=%s:%s:%s:" % (p, dt, p_int) + "/".join(cl["a"] for cl in sk))
                        rep.traces += 1
                        for kind, key, msg in divs:
                            if kind in kinds:
                                rep.violation(key, msg, {"spec": "NormDrop", "layer": "drop", "consts": HC._jsonable(c2), "history": sk,
                                                         "dtype": dt, "p_int": p_int, "divergence": [kind, key, msg]})
        rep.sample({"layer": "Dropout", "p": p, "skeleton": list(skeletons.values())[len(skeletons) // 2]})


B2 = [dict(shape=[2, 2], v=[1, -2, 3, 4]), dict(shape=[3, 2], v=[0, 5, 2, -1, 4, 3])]
B3 = [dict(shape=[2, 2, 2], v=[1, -2, 3, 4, 0, 2, 5, -3])]
B4 = [dict(shape=[2, 2, 1, 2], v=[2, -1, 0, 4, 3, 3, -2, 1]), dict(shape=[1, 2, 2, 2], v=[1, 2, 3, 5, -1, 0, 2, 2])]
STATS = tlc.Raw("{<<<<QI(2), QI(0-1)>>, <<QI(4), <<1,4>>>>>>, <<<<<<1,2>>, Q0>>, <<Q1, QI(9)>>>>}")


def run(ctx):
    if ctx.replay:
        rp = json.load(open(ctx.replay))["replay"]
        if rp["consts"].get("Layer") == "drop":
            return replay_drop_file(ctx, rp)
        return HC.replay_file(ctx, ctx.replay, KINDS, "NormDrop", RP, set_consts=("Acts",), raw_consts=("StatsSet",))
    rep = core.Report(ctx, "model_checking", assumptions=[
        "the normalised value is a named real function: the specification fixes which mean/variance/scale/shift each element uses, the driver evaluates it with mpmath",
        "Dropout probabilities in the model-checked part are dyadic (0, 1/2, 3/4, 1) so that survivors are exact; 'independently with probability p' is a fixed-seed statistical side-check outside TLC",
        "training-mode batches have at least two values per channel"])
    rep.rule = "every history (train/eval/setstats/forward; Dropout: forward with every mask / backward) up to MaxHist for every constructor option; distinct by (options, call sequence)"
    q = ctx.quick
    depth = 5 if q else 6
    # ---- BatchNorm
    cfgs = []
    for batches, nm in ((B2, "2d"), (B3 + B2[:1], "3d"), (B4, "4d")):
        for mom in ([], [Q(1, 2)], [Q(1, 10)]):
            for aff in (False, True):
                for tr in (True, False):
                    if q and nm != "2d" and (mom == [Q(1, 10)] or not aff):
                        continue
                    consts = dict(Layer="bn", Batches=batches, NC=2, Momentum=mom, Affine=aff, Track=tr, Gamma=[Q(2), Q(-1)], Beta=[Q(1), Q(3)],
                                  StatsSet=STATS, PDrop=Q(1, 2), Inputs=[], GradsIn=[], MaxHist=depth, Acts={"mode", "stats", "fwd"})
                    cfgs.append(("bn%s-mom%s-aff%d-tr%d" % (nm, "N" if not mom else mom[0][1], aff, tr), consts))
    # input gradients, also for a forward pass whose backward runs after later forwards / mode switches
    for batches, nm in ((B2[:1], "2d"), (B3, "3d")):
        for tr in (True, False):
            cfgs.append(("bnbwd%s-tr%d" % (nm, tr), dict(Layer="bn", Batches=batches, NC=2, Momentum=[Q(1, 2)], Affine=True, Track=tr, Gamma=[Q(2), Q(-1)], Beta=[Q(1), Q(3)],
                                                       StatsSet=STATS, PDrop=Q(1, 2), Inputs=[], GradsIn=[], MaxHist=depth, Acts={"mode", "fwd", "bnbwd"})))
    # a large eps (1/2): where eps sits in the formula becomes visible, in training and in eval mode
    for tr in (True, False):
        cfgs.append(("bn2d-eps-tr%d" % tr, dict(Layer="bn", Batches=B2, NC=2, Momentum=[Q(1, 2)], Affine=False, Track=tr, Gamma=[Q(2), Q(-1)], Beta=[Q(1), Q(3)], StatsSet=STATS,
                                                PDrop=Q(1, 2), Inputs=[], GradsIn=[], MaxHist=depth - 1, Acts={"mode", "stats", "fwd"}, Eps=Q(1, 2))))
    # the layer inside nested containers: train()/eval() issued on the root or on the layer itself
    for mom in ([], [Q(1, 2)]):
        cfgs.append(("bn-nested-mom%s" % ("N" if not mom else mom[0][1]),
                     dict(Layer="bn", Batches=B2[:1], NC=2, Momentum=mom, Affine=False, Track=True, Gamma=[Q(2), Q(-1)], Beta=[Q(1), Q(3)], StatsSet=STATS,
                          PDrop=Q(1, 2), Inputs=[], GradsIn=[], MaxHist=depth, Acts={"mode", "fwd"}, Nested=True)))
    for name, consts in cfgs:
        if name.startswith("bn2d") and consts["Affine"] and consts["Track"]:
            # (momentum 1/10: every tracked forward multiplies the denominators by 10 - depth 6 keeps TLC's 32-bit integers exact)
            HC.model_check(rep, "NormDrop", name + "-mc", consts, [], PROPS, depth=6 if (q or consts["Momentum"] == [Q(1, 10)]) else 8)
    em = HC.emit_many(rep, "NormDrop", cfgs)
    for name, (mx, table, c) in em.items():
        c2 = dict(c, StatsSet=str(c["StatsSet"]))
        HC.replay_all(ctx, rep, mx, table, c2, KINDS, RP, "NormDrop", label=name + ":", procs=8)
        # the same histories when nothing in the forward pass is tracked: a plain data batch (with affine=False no
        # operand requires grad at all), and forward passes inside the caller's no_grad block
        if "bnbwd" not in c["Acts"] and name.startswith("bn2d"):
            HC.replay_all(ctx, rep, mx, table, c2, KINDS, RP, "NormDrop", label=name + ":plain-input:", procs=8, rkw=dict(x_rg=False))
            HC.replay_all(ctx, rep, mx, table, c2, KINDS, RP, "NormDrop", label=name + ":no_grad:", procs=8, rkw=dict(no_grad=True))
    # ---- Dropout
    sg = repo.load(ctx.repo)
    drop_history_runs(ctx, rep, sg, KINDS, 4 if q else 5, mc=True)
    drop_history_runs(ctx, rep, sg, KINDS, 4 if q else 5, nested=True, ps=(Q(1, 2),), inputs=[[3, -2]], grads=[[2, -1]])
    # ---- statistics (outside TLC)
    stats = RN.dropout_statistics(sg, 1234 + ctx.seed)
    rep.extra["dropout_statistics"] = stats
    for s in stats:
        rep.case("drop-stat:%s" % s["p"])
        if not s["ok"]:
            rep.violation("drop:statistics:p=%s" % s["p"], "Dropout(p=%s): zero fraction %.4f (sigma %.4f), scale ok %s, lag-1 correlation %.4f" % (
                s["p"], s["zero_fraction"], s["sigma"], s["scale_ok"], s["lag1_corr"]), s)
    rep.exhaustive = False
    return rep.finish()


def replay_drop_file(ctx, rp):
    sg = repo.load(ctx.repo)
    c = dict(rp["consts"])
    c["Acts"] = set(c["Acts"])
    c["StatsSet"] = tlc.Raw("{}")
    c["Record"] = True
    rep = core.Report(ctx, "model_checking")
    mx, table, c = HC.emit(rep, "NormDrop", "replay", c)
    r = RN.DropReplayer(sg, dtype=rp.get("dtype", "float32"), p_int=rp.get("p_int", False))
    kinds = rp.get("kinds")
    bad = 0
    for _ in range(5):
        for d in r.run(rp["history"], lambda key: (json.loads(table[key]) if key in table else None), dict(c, StatsSet="{}")):
            if kinds and d[0] not in kinds:
                continue
            print("DIVERGENCE", d)
            bad += 1
    if bad:
        print("VIOLATION property=%s replay=%s" % (ctx.pid, ctx.replay))
        return 1
    print("replay: no divergence")
    return 0
