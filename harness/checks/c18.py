"""C18 - dataset split, batching and one-hot encoding lose or misalign no sample.

spec/Data.tla: (a) case machine over every (n <= MaxN, dyadic test fraction, validation fraction or
None, shuffle): floor-rule sizes; the driver checks sizes, partition (every sample in exactly one
set), feature/label pairing (y = 100 + x) and order when shuffle is off; (b) the DataLoader iteration
protocol as a state machine (iter / next / len / getitem) for every (n, batch_size), with and
without a transform - every history replayed; (c) one_hot_encode on every label vector."""
import json

import numpy as np

from ..vlib import core, repo, tlc

KINDS = None


def gen(rep, family, consts, record=False):
    c = dict(Family=family, MaxN=8, Fracs=tlc.Raw("{<<0,1>>, <<1,8>>, <<1,4>>, <<1,2>>, <<3,4>>, <<1,1>>}"), Labels={0, 1, 2, 5}, MaxLabLen=4,
             BatchSizes={1, 2, 3}, WithTransform=True, MaxHist=0, Record=record)
    c.update(consts)
    w, cfg = tlc.make_mc("Data", c, invariants=["Emit", "BatchesInside", "CursorBounded", "SplitSizesAddUp"])
    res = tlc.run_tlc("Data", cfg, workers=1, wrapper=w, timeout=1800, tag="Data-" + family)
    tlc.require_clean(res, "Data/" + family)
    if not res.cases:
        raise core.Machinery("family %s produced no case" % family)
    rep.tlc(res, "Data.tla family %s: %d lines" % (family, len(res.cases)))
    return res.cases


def check_split(sg, rep, o, seed):
    """each sample is one row of the feature array and one entry / row of the label array: scalar labels with
    (n, 1) features, and one-hot-like label rows (n, 3) with image-like features (n, 2, 2)"""
    for form in ("scalar", "rows"):
        check_split_form(sg, rep, o, seed, form)


def check_split_form(sg, rep, o, seed, form):
    from synapgrad.nn.utils.data import split_dataset
    n = o["n"]
    if form == "scalar":
        X = np.arange(n, dtype=np.float32).reshape(n, 1) if n else np.zeros((0, 1), dtype=np.float32)
        y = 100 + np.arange(n, dtype=np.float32)
        lab = lambda ids: 100 + np.array(ids, dtype=np.float32)      # noqa: E731
    else:
        X = (np.arange(n, dtype=np.float32).reshape(n, 1, 1) + np.array([[0, 1000], [2000, 3000]], dtype=np.float32)) if n else np.zeros((0, 2, 2), dtype=np.float32)
        y = np.arange(n, dtype=np.float32).reshape(n, 1) + np.array([100, 200, 300], dtype=np.float32) if n else np.zeros((0, 3), dtype=np.float32)
        lab = lambda ids: np.array(ids, dtype=np.float32).reshape(-1, 1) + np.array([100, 200, 300], dtype=np.float32)      # noqa: E731
    ts = o["ts"][0] / o["ts"][1]
    vs = None if not o["vs"] else o["vs"][0][0] / o["vs"][0][1]
    key = "split:%s:%s%s" % ("shuffle" if o["shuffle"] else "ordered", "val" if o["hasval"] else "noval", "" if form == "scalar" else ":label-rows")
    np.random.seed(seed)
    try:
        train, test, val = split_dataset(X, y, test_split=ts, val_split=vs, shuffle=o["shuffle"])
    except Exception as e:  # noqa: BLE001
        rep.violation(key + ":raised:" + type(e).__name__ + (":n0" if n == 0 else ""), "split_dataset(n=%d, test=%s, val=%s, shuffle=%s) raised %s: %s" % (n, ts, vs, o["shuffle"], type(e).__name__, str(e)[:100]), o)
        return
    sets = [("train", train, o["ntrain"]), ("test", test, o["ntest"])]
    if o["hasval"]:
        if val is None:
            rep.violation(key + ":val-missing", "validation set missing", o)
            return
        sets.append(("val", val, o["nval"]))
    elif val is not None:
        rep.violation(key + ":val-unexpected", "validation set returned although val_split is None", o)
    seen = []
    for name, (Xs, ys), want in sets:
        Xs, ys = np.asarray(Xs), np.asarray(ys)
        if len(Xs) != want or len(ys) != want:
            rep.violation(key + ":size:" + name, "n=%d test=%s val=%s: %s has %d samples, floor rule %d" % (n, ts, vs, name, len(Xs), want), o)
            return
        ids = [int(v) for v in Xs.reshape(len(Xs), -1)[:, 0]] if len(Xs) else []
        want_y = lab(ids)
        if len(ys) and (np.asarray(ys).shape != want_y.shape or not np.array_equal(np.asarray(ys), want_y)):
            rep.violation(key + ":pairing:" + name, "features and labels of %s are not paired: samples %s came with labels %s" % (name, ids, np.asarray(ys).tolist()), o)
        if form == "rows" and len(Xs) and not np.array_equal(np.asarray(Xs), np.array(ids, dtype=np.float32).reshape(-1, 1, 1) + np.array([[0, 1000], [2000, 3000]], dtype=np.float32)):
            rep.violation(key + ":features:" + name, "feature rows of %s were not returned intact" % name, o)
        if not o["shuffle"] and ids != sorted(ids):
            rep.violation(key + ":order:" + name, "%s not in original order: %s" % (name, ids), o)
        seen += ids
    if sorted(seen) != list(range(n)):
        rep.violation(key + ":partition", "samples %s do not partition 0..%d" % (sorted(seen), n - 1), o)


def check_onehot(sg, rep, o):
    from synapgrad.nn.utils.data import one_hot_encode
    try:
        got = np.asarray(one_hot_encode(np.array(o["labels"])))
    except Exception as e:  # noqa: BLE001
        rep.violation("onehot:raised:" + type(e).__name__, "one_hot_encode(%s) raised %s" % (o["labels"], e), o)
        return
    want = np.array(o["rows"])
    if got.shape != want.shape or not np.array_equal(got, want):
        rep.violation("onehot:value", "one_hot_encode(%s) = %s, specification %s" % (o["labels"], got.tolist(), want.tolist()), o)


def run_loader(sg, rep, case, hist, table, transform):
    from synapgrad.nn.utils.data import DataLoader, DataLoaderCallback
    n, bs = case["n"], case["bs"]
    X = np.arange(n).reshape(n, 1).astype(np.float32)
    y = (100 + np.arange(n)).astype(np.float32)
    calls = []

    class T(DataLoaderCallback):
        def __call__(self, loader, Xb, yb):
            calls.append(1)
            return Xb * 1.0, yb * 1.0
    key0 = "loader:%s" % ("transform" if transform else "no-transform")
    try:
        # the documented signature is DataLoader(X, y, batch_size, transform=None): keyword, positional and all-keyword calls
        form = (n + bs + len(hist)) % 3
        if not transform:
            dl = DataLoader(X, y, bs) if form else DataLoader(X, y, bs, transform=None)
        elif form == 0:
            dl = DataLoader(X, y, bs, transform=T())
        elif form == 1:
            dl = DataLoader(X, y, bs, T())
        else:
            dl = DataLoader(X=X, y=y, batch_size=bs, transform=T())
    except Exception as e:  # noqa: BLE001
        return [(key0 + ":ctor-raised", "DataLoader(...) raised %s" % e)]
    it = None
    for i, call in enumerate(hist):
        a = call["a"]
        got = None
        try:
            if a == "iter":
                it = iter(dl)
                got = {"t": "iter"}
            elif a == "next":
                try:
                    b = next(it)
                    got = {"t": "batch", "b": b}
                except StopIteration:
                    got = {"t": "stop"}
            elif a == "len":
                got = {"t": "len", "v": len(dl)}
            elif a == "getitem":
                got = {"t": "batch", "b": dl[call["i"]]}
        except Exception as e:  # noqa: BLE001
            return [("%s:%s:raised:%s" % (key0, a, type(e).__name__), "step %d (%s) on DataLoader(n=%d, batch_size=%d) raised %s: %s" % (i, a, n, bs, type(e).__name__, str(e)[:100]))]
        obs = table[json.dumps([case, hist[:i + 1]], sort_keys=True)]
        exp = obs["last"]
        if exp["t"] != got["t"]:
            return [("%s:%s:kind" % (key0, a), "step %d (%s): got %s, specification %s (n=%d, bs=%d, history %s)" % (i, a, got["t"], exp, n, bs, [c["a"] for c in hist[:i + 1]]))]
        if exp["t"] == "len" and exp["v"] != got["v"]:
            return [(key0 + ":len", "len = %s, specification %s" % (got["v"], exp["v"]))]
        if exp["t"] == "batch":
            Xb, yb = got["b"]
            lo, hi = exp["r"]
            if not (np.array_equal(np.asarray(Xb).reshape(-1), np.arange(lo, hi)) and np.array_equal(np.asarray(yb).reshape(-1), 100 + np.arange(lo, hi))):
                return [(key0 + ":batch-content", "batch %s/%s, specification samples [%d, %d) with paired labels" % (np.asarray(Xb).reshape(-1).tolist(), np.asarray(yb).reshape(-1).tolist(), lo, hi))]
        if transform and len(calls) != obs["delivered"]:
            return [(key0 + ":transform-count", "transform applied %d times for %d delivered batches" % (len(calls), obs["delivered"]))]
    return []


def run(ctx):
    q = ctx.quick
    rep = core.Report(ctx, "model_checking", assumptions=[
        "split fractions are dyadic so that floor(fraction * n) is unambiguous in floating point",
        "which samples go to which set is left open (only sizes, partition, pairing and order are fixed); shuffled splits are checked for the partition properties only"])
    rep.rule = "every (n <= MaxN, test fraction, validation fraction | None, shuffle) split case; every label vector up to length 4 over 4 labels; every DataLoader history up to MaxHist for every (n, batch size), with and without transform"
    sg = repo.load(ctx.repo)
    N = 8 if q else 12
    if ctx.replay:
        o = json.load(open(ctx.replay))["replay"]
        rep0 = core.Report(ctx, "model_checking")
        if o.get("kind") == "split":
            check_split(sg, rep0, o, 1)
        elif o.get("kind") == "onehot":
            check_onehot(sg, rep0, o)
        else:
            for k, m in run_loader(sg, rep0, o["case"], o["hist"], o["table"], o["transform"]):
                rep0.violation(k, m)
        rep0.evaluations = 1
        for k, (m, r, c) in rep0.violations.items():
            print("DIVERGENCE", k, m)
        if rep0.violations:
            print("VIOLATION property=%s replay=%s" % (ctx.pid, ctx.replay))
            return 1
        print("replay: no divergence")
        return 0
    for o in gen(rep, "split", dict(MaxN=N)):
        rep.case("split:%d:%s:%s:%s" % (o["n"], o["ts"], o["vs"], o["shuffle"]))
        check_split(sg, rep, o, ctx.seed + o["n"])
        if o["n"] == 5 and o["ts"] == [1, 4]:
            rep.sample(o, limit=3)
    # fractions that are not exactly representable (7/10, 1/3, ...): floor(fraction * n) is evaluated by the
    # specification on the rational and by any implementation on the nearest double.  The two readings agree except
    # when the double product lands on the other side of an integer; those (fraction, n) pairs are skipped (counted),
    # every other one is held to the floor rule - including the pairs where fraction * n is an integer exactly
    from fractions import Fraction
    import math
    skipped = 0
    for o in gen(rep, "split", dict(MaxN=12 if q else 21, Fracs=tlc.Raw("{<<7,10>>, <<1,3>>, <<2,3>>, <<3,10>>, <<9,20>>}"))):
        def ambiguous(fr, n):
            return math.floor((fr[0] / fr[1]) * n) != (Fraction(fr[0], fr[1]) * n).__floor__()
        if ambiguous(o["ts"], o["n"]) or (o["vs"] and ambiguous(o["vs"][0], o["n"] - o["ntest"])):
            skipped += 1
            continue
        rep.case("split:%d:%s:%s:%s" % (o["n"], o["ts"], o["vs"], o["shuffle"]))
        check_split_form(sg, rep, o, ctx.seed + o["n"], "scalar")
    rep.extra["split_pairs_skipped_as_ambiguous_in_floating_point"] = skipped
    for o in gen(rep, "onehot", dict(MaxLabLen=4 if q else 5)):
        rep.case("onehot:%s" % o["labels"])
        check_onehot(sg, rep, o)
    lines = gen(rep, "loader", dict(MaxN=6 if q else 8, MaxHist=5 if q else 6), record=True)
    table = {json.dumps([o["case"], o["hist"]], sort_keys=True): o["obs"] for o in lines}
    prefixes = {json.dumps([o["case"], o["hist"][:-1]], sort_keys=True) for o in lines if o["hist"]}
    maximal = [o for o in lines if json.dumps([o["case"], o["hist"]], sort_keys=True) not in prefixes]
    for o in maximal:
        for transform in (True, False):
            rep.case("loader:%s:%s:%s" % (o["case"], "/".join(c["a"] for c in o["hist"]), transform))
            rep.traces += 1
            for k, m in run_loader(sg, rep, o["case"], o["hist"], table, transform):
                sub = None
                if k not in rep.violations:
                    sub = {json.dumps([o["case"], o["hist"][:j]], sort_keys=True): table[json.dumps([o["case"], o["hist"][:j]], sort_keys=True)]
                           for j in range(len(o["hist"]) + 1)}
                rep.violation(k, m, dict(case=o["case"], hist=o["hist"], transform=transform, table=sub))
    rep.sample(maximal[len(maximal) // 2], limit=5)
    rep.exhaustive = True
    return rep.finish()
