"""C15 - weight initialisers fill tensors with the documented distribution, in place.

spec/Init.tla enumerates every initialiser x shape x gain / mode / nonlinearity / slope and gives the
expected squared bound / squared standard deviation as an exact rational (fans and gains as in
PyTorch), plus the frame condition.  Replay: (i) identity, shape, dtype and requires_grad of the
tensor object, the same tensor returned; (ii) the parameters the initialiser hands to NumPy's global
generator (np.random.uniform / normal are wrapped for the call) against sqrt of the specification's
rational; (iii) sample statistics on a larger tensor with fixed seeds (support, mean, std) - the
statistical part is outside TLC."""
import json
import math
from fractions import Fraction

import numpy as np

from ..vlib import core, repo, tlc


class Capture:
    def __init__(self):
        self.calls = []

    def __enter__(self):
        self.u, self.n = np.random.uniform, np.random.normal
        cap = self

        def uniform(low=0.0, high=1.0, size=None):
            cap.calls.append(("uniform", float(low), float(high)))
            return cap.u(low, high, size)

        def normal(loc=0.0, scale=1.0, size=None):
            cap.calls.append(("normal", float(loc), float(scale)))
            return cap.n(loc, scale, size)
        np.random.uniform, np.random.normal = uniform, normal
        return self

    def __exit__(self, *a):
        np.random.uniform, np.random.normal = self.u, self.n


def call_init(sg, c, t):
    init = sg.nn.init
    f = c["f"]
    if f in ("xavier_uniform_", "xavier_normal_"):
        return getattr(init, f)(t, gain=float(Fraction(*c["gain"])))
    if f in ("kaiming_uniform_", "kaiming_normal_"):
        return getattr(init, f)(t, a=float(Fraction(*c["slope"])), mode=c["mode"], nonlinearity=c["nl"])
    num = (lambda v: np.float64(v)) if c.get("argform") == "np64" else float
    if f == "constant_":
        return init.constant_(t, num(3.5))
    if f == "uniform_":
        return init.uniform_(t, num(-1.5), num(1.5))
    if f == "normal_":
        return init.normal_(t, num(0.0), num(2.0))
    return getattr(init, f)(t)


def check_case(sg, rep, o, seed, big):
    c, e = o["c"], o["e"]
    f = c["f"]
    sq = Fraction(*e["sq"])
    key = f + (":" + c.get("mode", "") if "mode" in c else "") + (":np64-args" if c.get("argform") == "np64" else "")
    for dtype in (np.float32, np.float64):
        for rg in (False, True):
            if f in ("Linear", "Conv1d", "Conv2d"):
                s = c["shape"]
                with Capture() as cap:
                    layer = sg.nn.Linear(s[1], s[0]) if f == "Linear" else sg.nn.Conv1d(s[1], s[0], s[2]) if f == "Conv1d" else sg.nn.Conv2d(s[1], s[0], (s[2], s[3]))
                t = layer.weight
                if tuple(t.shape) != tuple(s):
                    rep.violation(key + ":weight-shape", "%s weight shape %s, expected %s" % (f, t.shape, s), o)
                    return
                targets = [("weight", t)] + ([("bias", layer.bias)] if layer.bias is not None else [])
                bound = math.sqrt(sq)
                for nm, tt in targets:
                    if np.any(np.abs(tt.data) > bound * (1 + 1e-6)):
                        rep.violation(key + ":support:" + nm, "%s %s outside U(-1/sqrt(fan_in), 1/sqrt(fan_in)) = +-%s" % (f, nm, bound), o)
                us = [x for x in cap.calls if x[0] == "uniform"]
                if us and any(abs(abs(x[1]) - bound) > 1e-9 or abs(x[2] - bound) > 1e-9 for x in us):
                    rep.violation(key + ":scale", "%s initialises with uniform%s, documented bound %s" % (f, us, bound), o)
                break
            # (the usual idiom for re-initialising parameters: inside the caller's no_grad block)
            t = sg.Tensor(np.full(tuple(c["shape"]), 9.0, dtype=dtype), requires_grad=rg)
            tn = sg.Tensor(np.full(tuple(c["shape"]), 9.0, dtype=dtype), requires_grad=rg)
            try:
                with sg.no_grad():
                    rn = call_init(sg, c, tn)
                if rn is not tn or tn.shape != t.shape or tn.data.dtype != dtype or bool(tn.requires_grad) != rg:
                    rep.violation(key + ":frame:inside-no_grad", "%s called inside no_grad changed identity/shape/dtype/requires_grad: %s %s requires_grad=%s (was %s)" % (
                        f, tn.shape, tn.data.dtype, tn.requires_grad, rg), o)
            except Exception as ex:  # noqa: BLE001
                rep.violation(key + ":raised-inside-no_grad:" + type(ex).__name__, "%s on shape %s inside no_grad raised %s: %s" % (f, c["shape"], type(ex).__name__, str(ex)[:100]), o)
            ident, shape0 = id(t), t.shape
            np.random.seed(seed)
            with Capture() as cap:
                try:
                    r = call_init(sg, c, t)
                except Exception as ex:  # noqa: BLE001
                    rep.violation(key + ":raised:" + type(ex).__name__, "%s on shape %s raised %s: %s" % (f, c["shape"], type(ex).__name__, str(ex)[:100]), o)
                    return
            if r is not t or id(t) != ident:
                rep.violation(key + ":identity", "%s does not return the tensor it was given" % f, o)
            if t.shape != shape0 or t.data.dtype != dtype or bool(t.requires_grad) != rg:
                rep.violation(key + ":frame", "%s changed shape/dtype/requires_grad: %s %s %s" % (f, t.shape, t.data.dtype, t.requires_grad), o)
            if e["dist"] == "const":
                want = float(sq) if f != "constant_" else 3.5
                if not np.all(t.data == want):
                    rep.violation(key + ":value", "%s filled with %s, documented %s" % (f, np.unique(t.data).tolist()[:3], want), o)
            elif e["dist"] in ("uniform", "normal"):
                scale = math.sqrt(sq)
                calls = [x for x in cap.calls if x[0] == e["dist"]]
                if calls:
                    x = calls[-1]
                    if e["dist"] == "uniform" and (abs(x[1] + scale) > 1e-9 * max(1, scale) or abs(x[2] - scale) > 1e-9 * max(1, scale)):
                        rep.violation(key + ":scale", "%s on %s (%s) draws from U(%s, %s), documented bound %s" % (f, c["shape"], {k: v for k, v in c.items() if k not in ("f", "shape")}, x[1], x[2], scale), o)
                    if e["dist"] == "normal" and (abs(x[1]) > 1e-12 or abs(x[2] - scale) > 1e-9 * max(1, scale)):
                        rep.violation(key + ":scale", "%s on %s (%s) draws from N(%s, std %s), documented std %s" % (f, c["shape"], {k: v for k, v in c.items() if k not in ("f", "shape")}, x[1], x[2], scale), o)
    # (iii) statistics on a big tensor (only for one representative shape class per case: 2-d)
    if big and e["dist"] in ("uniform", "normal") and f not in ("Linear", "Conv1d", "Conv2d") and len(c["shape"]) == 2:
        shape = (200, 300)
        c2 = dict(c, shape=list(shape))
        fi, fo = shape[1], shape[0]
        if f in ("uniform_", "normal_"):
            sq2 = float(sq)
        elif f.startswith("xavier"):
            g = float(Fraction(*c["gain"]))
            sq2 = g * g * (6 if "uniform" in f else 2) / (fi + fo)
        else:
            gain2 = {"linear": 1, "conv2d": 1, "sigmoid": 1, "tanh": 25 / 9, "relu": 2, "selu": 9 / 16}.get(c["nl"])
            if gain2 is None:
                sl = float(Fraction(*c["slope"]))
                gain2 = 2 / (1 + sl * sl)
            fan = fi if c["mode"] == "fan_in" else fo
            sq2 = gain2 * (3 if "uniform" in f else 1) / fan
        t = sg.Tensor(np.zeros(shape, dtype=np.float32))
        np.random.seed(seed + 1)
        call_init(sg, c2, t)
        d = t.data.astype(np.float64)
        n = d.size
        if e["dist"] == "uniform":
            a = math.sqrt(sq2)
            std_want = a / math.sqrt(3)
            if d.max() > a * (1 + 1e-6) or d.min() < -a * (1 + 1e-6) or d.max() < 0.99 * a:
                rep.violation(key + ":stat-support", "%s: sample range [%s, %s], documented +-%s" % (f, d.min(), d.max(), a), o)
        else:
            std_want = math.sqrt(sq2)
        if abs(d.mean()) > 5 * std_want / math.sqrt(n) or abs(d.std() - std_want) > 0.02 * std_want:
            rep.violation(key + ":stat-moments", "%s: sample mean %.5f std %.5f, documented std %.5f" % (f, d.mean(), d.std(), std_want), o)


def run(ctx):
    sg = repo.load(ctx.repo)
    q = ctx.quick
    if ctx.replay:
        o = json.load(open(ctx.replay))["replay"]
        rep = core.Report(ctx, "exploration")
        check_case(sg, rep, o, 1, True)
        for k, (m, r, c) in rep.violations.items():
            print("DIVERGENCE", k, m)
        if rep.violations:
            print("VIOLATION property=%s replay=%s" % (ctx.pid, ctx.replay))
            return 1
        print("replay: no divergence")
        return 0
    rep = core.Report(ctx, "exploration", assumptions=[
        "the distribution parameters are decided exactly (arguments handed to NumPy's generator vs the specification's rational); the shape of the distribution and 'any seed' are a fixed-seed statistical check with wide margins (outside TLC)",
        "observation of the generator arguments is skipped (not failed) if the initialiser does not call np.random.uniform / normal"])
    rep.rule = "every (initialiser, shape, gain | mode x nonlinearity x slope) case emitted by TLC from spec/Init.tla; non-trivial = has a distribution scale to check; distinct by the case record"
    # (ranks 5 and 6: receptive field = product of ALL dims after the second, as in PyTorch)
    shapes = "{<<3>>, <<2, 3>>, <<4, 2>>, <<2, 3, 2>>, <<3, 2, 2, 2>>, <<2, 3, 1, 2, 3>>, <<2, 2, 2, 1, 2, 2>>" + ("" if q else ", <<5>>, <<1, 1>>, <<3, 1, 3>>, <<2, 2, 3, 1>>, <<3, 2, 2, 2, 2>>") + "}"
    consts = dict(Shapes=tlc.Raw(shapes), Gains=tlc.Raw("{Q1, <<1, 2>>, QI(2)}"), Slopes=tlc.Raw("{Q0, <<1, 2>>, Q1}"))
    w, cfg = tlc.make_mc("Init", consts, invariants=["Emit", "ScalePositive"], properties=["FrameShape"])
    res = tlc.run_tlc("Init", cfg, workers=1, wrapper=w, timeout=3000)
    tlc.require_clean(res, "Init")
    rep.tlc(res, "Init.tla: %d cases" % len(res.cases))
    seen = set()
    for i, o in enumerate(res.cases):
        k = json.dumps(o["c"], sort_keys=True)
        if k in seen:
            continue
        seen.add(k)
        rep.case(k)
        if i % 97 == 5:
            rep.sample(o, limit=4)
        check_case(sg, rep, o, ctx.seed + i, big=(i % (7 if q else 2) == 0))
    rep.exhaustive = False
    return rep.finish()
