"""C06 - forward results of nn ops / layers / losses match their documented definitions.

Forward part of spec/NNCatalog.tla (+ ConvGeom): output-length formula, window map, padding handling
(-inf for max, zeros counted by the average), kernel layout / block order of unfold, overlap sums of
fold, losses with every reduction, batch norm in every mode; functional forms and layer modules, int
and tuple argument forms; configurations that cannot be honoured must raise.  Layer-level argument
normalisation (default stride, 'same' / 'valid' padding) is checked against the specification's
ConvGeom.OutLen on a grid of layer constructions."""
import numpy as np

from ..vlib import core, repo
from .. import cat_common as CC

KINDS = {"reject", "accept", "forward_shape", "forward_value"}


def layer_forms(ctx, rep):
    """Conv layers built with padding='same' | 'valid' and default strides: the output length must be the
    specification's OutLen with total padding d(k-1) split evenly ('same', stride 1: output = input), or the
    construction / call must raise; pooling layers default stride = kernel."""
    sg = repo.load(ctx.repo)
    nn = sg.nn

    def outlen(L, k, s, p, d):
        num = L + 2 * p - d * (k - 1) - 1
        return 0 if num < 0 else num // s + 1
    for k in (1, 2, 3, 4):
        for d in (1, 2):
            for L in (4, 5):
                for mode in ("same", "valid"):
                    for dimn in (1, 2):
                        key = "conv%dd:padding=%s:%s:%s" % (dimn, mode, "even-kernel" if k % 2 == 0 else "odd-kernel", "dilated" if d > 1 else "plain")
                        rep.case("layer:%s:k%d:d%d:L%d" % (key, k, d, L))
                        try:
                            if dimn == 1:
                                layer = nn.Conv1d(1, 1, k, padding=mode, dilation=d)
                                y = layer(sg.Tensor(np.ones((1, 1, L), dtype=np.float32)))
                                got = y.shape[2:]
                            else:
                                layer = nn.Conv2d(1, 1, (k, 3), padding=mode, dilation=(d, 1))
                                y = layer(sg.Tensor(np.ones((1, 1, L, 5), dtype=np.float32)))
                                got = y.shape[2:]
                        except Exception:  # noqa: BLE001 - a configuration it cannot honour may be rejected
                            continue
                        if mode == "same":
                            want = (L,) if dimn == 1 else (L, 5)
                        else:
                            want = (outlen(L, k, 1, 0, d),) if dimn == 1 else (outlen(L, k, 1, 0, d), outlen(5, 3, 1, 0, 1))
                        if tuple(got) != tuple(want):
                            rep.violation("layer:" + key, "Conv%dd(kernel=%s, padding='%s', dilation=%d) on length %d: output spatial size %s, documented %s" % (
                                dimn, k, mode, d, L, tuple(got), tuple(want)), dict(kind="layer", k=k, d=d, L=L, mode=mode, dimn=dimn))
    # strided 'same' must be rejected (documented ValueError)
    for cls, args in ((nn.Conv1d, dict(kernel_size=3, stride=2)), (nn.Conv2d, dict(kernel_size=3, stride=(1, 2)))):
        rep.case("layer:same-strided:" + cls.__name__)
        try:
            cls(1, 1, padding="same", **args)
            rep.violation("layer:same-strided-accepted:" + cls.__name__, "%s(padding='same', stride != 1) was accepted" % cls.__name__, dict(kind="layer-strided"))
        except ValueError:
            pass
    # empty Sequential / default pooling stride
    for cls, kw, L in ((nn.MaxPool1d, dict(kernel_size=2), 5), (nn.AvgPool1d, dict(kernel_size=3), 7)):
        rep.case("layer:default-stride:" + cls.__name__)
        y = cls(**kw)(sg.Tensor(np.arange(L, dtype=np.float32).reshape(1, 1, L)))
        want = outlen(L, kw["kernel_size"], kw["kernel_size"], 0, 1)
        if y.shape[2] != want:
            rep.violation("layer:default-stride:" + cls.__name__, "default stride: output length %d, documented %d" % (y.shape[2], want), dict(kind="layer-stride"))


def run(ctx):
    if ctx.replay:
        import json
        rp = json.load(open(ctx.replay))["replay"]
        if rp.get("spec") == "NormDrop":
            from .. import hist_common as HC
            from . import c13
            return HC.replay_file(ctx, ctx.replay, {"output"}, "NormDrop", c13.RP, set_consts=("Acts",), raw_consts=("StatsSet",))
        if rp.get("kind", "").startswith("layer"):
            rep = core.Report(ctx, "model_checking")
            layer_forms(ctx, rep)
            for k, (m, r, c) in rep.violations.items():
                print("DIVERGENCE", k, m)
            if rep.violations:
                print("VIOLATION property=%s replay=%s" % (ctx.pid, ctx.replay))
                return 1
            print("replay: no divergence")
            return 0
        return CC.replay_file(ctx, ctx.replay, KINDS, replayer=CC.NN_REPLAYER)
    rep = core.Report(ctx, "model_checking", assumptions=[
        "geometry grids as in C02; pooling with padding larger than half the kernel and other arguments PyTorch rejects but the docstrings do not exclude are MAY (raising is fine, a value must be the specification's)",
        "max-pooling windows lying entirely in the padding are outside the catalogue"])
    rep.rule = "every nn case emitted by TLC, forward only, functional and module forms, int and tuple argument forms, both dtypes; plus the layer-construction grid"
    cases = CC.nn_cases(ctx, rep, with_grad=False)
    CC.replay(ctx, rep, cases, KINDS, replayer=CC.NN_REPLAYER, spec="NNCatalog")
    layer_forms(ctx, rep)
    # the stateful layer form: BatchNorm modules over call histories (spec/NormDrop.tla)
    from . import c13
    c13.bn_history_runs(ctx, rep, {"output"}, {"mode", "stats", "fwd"}, 4 if ctx.quick else 5, "bnfwd")
    rep.exhaustive = True
    rep.extra["cases"] = len(cases)
    return rep.finish()
