"""C08 - optimizers follow the published SGD / Adam / AdamW update rules on any history.

spec/Optim.tla: exact rational trajectories of three two-element parameters (two given to the
optimizer, one of them freezable, one not given) under every interleaving of backward (several per
step allowed), zero_grad, step, freeze/unfreeze, over grids of dyadic hyper-parameters.  TLC checks
OnlyActiveMove, StateIndependent, StepKeepsGrads on the design; every behaviour is replayed on real
Tensors / optimizers (gradients come from a real backward pass) and the value of every parameter,
the identity of its storage, dtype and shape are compared after every call.
SGD with maximize and weight decay: the PyTorch documentation cited by synapgrad and PyTorch's code
disagree; a history is accepted if it follows either variant consistently."""
import numpy as np

from ..vlib import core, tlc
from .. import hist_common as HC

KINDS = {"error", "inplace", "trajectory", "grads"}
RP = ("replay_optim", "OptimReplayer")
PROPS = ["OnlyActiveMove", "StateIndependent", "StepKeepsGrads"]


def Q(n, d=1):
    return [n, d]


def tlarec(h):
    return "[" + ", ".join("%s |-> %s" % (k, tlc.tla_value(v)) for k, v in h.items()) + "]"


def hyperset(hs):
    return tlc.Raw("{" + ", ".join(tlarec(h) for h in hs) + "}")


def sgd_grid(full):
    moms = [(0, 1), (1, 2)] + ([(1, 4)] if full else [])
    damps = [(0, 1), (1, 4)] + ([(1, 2)] if full else [])
    wds = [(0, 1), (1, 4)] + ([(1, 8)] if full else [])
    lrs = [(1, 2)] + ([(1, 4)] if full else [])
    out = []
    for lr in lrs:
        for m in moms:
            for d in damps:
                for w in wds:
                    for n in (False, True):
                        for mx in (False, True):
                            if n and (m[0] == 0 or d[0] != 0):
                                continue      # the constructor rejects it
                            out.append(dict(lr=Q(*lr), mom=Q(*m), damp=Q(*d), wd=Q(*w), nesterov=n, maximize=mx))
    # boundary values of the ranges: momentum 1, dampening 1, integer learning rate
    out.append(dict(lr=Q(1, 2), mom=Q(1), damp=Q(0), wd=Q(0), nesterov=False, maximize=False))
    out.append(dict(lr=Q(1, 2), mom=Q(1, 2), damp=Q(1), wd=Q(0), nesterov=False, maximize=False))
    out.append(dict(lr=Q(1), mom=Q(1, 2), damp=Q(0), wd=Q(1, 4), nesterov=True, maximize=False))
    return out


def adam_grid(full):
    # (32-bit integers in TLC: beta and eps grids are kept coarse so that three bias-corrected steps stay exact)
    out = []
    for lr in [(1, 2)] + ([(1, 4)] if full else []):
        for b1 in [(1, 2)] + ([(3, 4)] if full else []):
            for b2 in [(1, 2)]:
                for eps in [(1, 8)] + ([(1, 16)] if full else []):
                    for w in [(0, 1), (1, 4)]:
                        for mx in (False, True):
                            out.append(dict(lr=Q(*lr), b1=Q(*b1), b2=Q(*b2), eps=Q(*eps), wd=Q(*w), maximize=mx))
    # boundary values: beta2 = 0 (the second moment is g^2: every gradient sequence has rational roots), beta1 = 0, eps = 0
    out.append(dict(lr=Q(1, 2), b1=Q(1, 2), b2=Q(0), eps=Q(1, 8), wd=Q(0), maximize=False))
    out.append(dict(lr=Q(1, 2), b1=Q(0), b2=Q(1, 2), eps=Q(1, 8), wd=Q(1, 4), maximize=False))
    out.append(dict(lr=Q(1, 2), b1=Q(1, 2), b2=Q(0), eps=Q(0), wd=Q(0), maximize=True))
    return out


def run(ctx):
    if ctx.replay:
        import json, os, tempfile
        rp = json.load(open(ctx.replay))
        h0 = (rp["replay"]["history"] or [{}])[0]
        amb = h0.get("kind") == "sgd" and h0.get("h", {}).get("maximize") and h0.get("h", {}).get("wd", [0])[0] != 0
        if not amb:
            return HC.replay_file(ctx, ctx.replay, KINDS, "Optim", RP, set_consts=("Scales", "Acts"), raw_consts=("Hypers",))
        # the documented ambiguity: a violation only if neither variant explains the history
        rcs = []
        for variant in ("negate_first", "flip_last"):
            rp["replay"]["consts"]["Variant"] = variant
            fd, tmp = tempfile.mkstemp(suffix=".json", dir=tlc.scratch())
            with os.fdopen(fd, "w") as f:
                json.dump(rp, f)
            print("-- variant", variant)
            rcs.append(HC.replay_file(ctx, tmp, KINDS, "Optim", RP, set_consts=("Scales", "Acts"), raw_consts=("Hypers",)))
        if all(r != 0 for r in rcs):
            print("VIOLATION property=%s replay=%s" % (ctx.pid, ctx.replay))
            return 1
        print("replay: explained by one of the two documented variants: no divergence")
        return 0
    rep = core.Report(ctx, "model_checking", assumptions=[
        "hyper-parameters from dyadic grids (exactly representable); eps exaggerated (1/8, 1/1024) so that its placement is visible",
        "Adam/AdamW: only behaviours whose square roots are rational are explored (constant |g| per element, first step under weight decay)",
        "SGD maximize + weight decay: either documented variant accepted, consistently over a history",
        "optimizer-internal buffers are not read: state corruption shows in the trajectory"])
    rep.rule = "every history (ctor with each hyper record, then interleavings of backward(s), zero_grad, step, freeze/unfreeze) up to MaxHist; distinct by (optimizer, non-default hyper-parameters, call sequence)"
    q = ctx.quick
    acts = {"bw", "zero", "step", "freeze"}
    for kind, grid, depth in (("sgd", sgd_grid(not q), 5 if q else 6), ("adam", adam_grid(not q), 5 if q else 6), ("adamw", adam_grid(not q), 5 if q else 6)):
        plain = [h for h in grid if not (kind == "sgd" and h["maximize"] and h["wd"][0] != 0)]
        amb = [h for h in grid if kind == "sgd" and h["maximize"] and h["wd"][0] != 0]
        base = dict(Kind=kind, Scales={1, -1, 2}, Variant="negate_first", MaxHist=depth, Acts=acts, MaxLevel=7 if q else 8)
        HC.model_check(rep, "Optim", "Optim_mc_" + kind, dict(base, Hypers=hyperset(grid)), [], PROPS, constraints=["LevelBound"], timeout=10000)
        mx, table, c = HC.emit(rep, "Optim", kind, dict(base, Hypers=hyperset(plain)))
        c = dict(c, Hypers=str(c["Hypers"]))
        for dt in (("float64",) if q else ("float64", "float32")):
            HC.replay_all(ctx, rep, mx, table, c, KINDS, RP, "Optim", label=kind + ":", limit=80000 if q else 600000, rkw=dict(dtype=dt))
        if amb:
            em = {}
            for variant in ("negate_first", "flip_last"):
                mx, table, c = HC.emit(rep, "Optim", kind + "-" + variant, dict(base, Variant=variant, Hypers=hyperset(amb)))
                em[variant] = (mx, table, dict(c, Hypers=str(c["Hypers"])))
            # every history of either variant is replayed against both tables; it is a violation only
            # if neither variant explains the implementation
            allh = {HC.prefix_key(h): h for v in em.values() for h in v[0]}
            hs = list(allh.values())
            res = {v: HC.replay_all(ctx, rep, hs, em[v][1], em[v][2], KINDS, RP, "Optim", limit=40000 if q else 300000,
                                    rkw=dict(dtype="float64"), raw=True, allow_missing=True) for v in em}
            for key, (hist, divs) in res["negate_first"].items():
                rep.case("sgd-amb:" + "/".join(x["a"] for x in hist))
                rep.traces += 1
                other = res["flip_last"].get(key)
                if divs and other is not None and other[1]:
                    kind_, k_, msg = divs[0]
                    rep.violation(k_, msg + " (and the flip_last variant does not explain it either: %s)" % other[1][0][2][:200],
                                  {"spec": "Optim", "consts": HC._jsonable(em["negate_first"][2]), "history": hist,
                                   "divergence": [kind_, k_, msg], "rkw": dict(dtype="float64")})
    rep.exhaustive = False
    return rep.finish()
