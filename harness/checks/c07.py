"""C07 - requires_grad propagation and grad-mode contexts behave like a stack.

spec/Autograd.tla, mode/context part: all sequences of construct / enter / exit (normal or by
exception) of no_grad and retain_grads, leaf creation with either flag and dtype, operators, the
requires_grad setter on leaves and non-leaves, retain_grad, detach, backward inside or outside the
contexts.  TLC checks FnIffRg, FloatOnly, NoGradOnNonReq, CtxRestore (ghost stack), ModesOnlyByCtx;
every behaviour is replayed and flags, refusals, modes (probed through the public API) and the
release of intermediate gradients are compared after every call."""
import numpy as np

from ..vlib import core
from .. import ag_common as AG

KINDS = {"flags": "C07", "error": "C07", "mode": "C07", "interior_grad": "C07", "leaf_grad": "C07"}
L1 = [dict(vec=False, rg=True)]


def run(ctx):
    if ctx.replay:
        import json
        rp = json.load(open(ctx.replay))["replay"]
        if rp.get("spec") in ("OpCatalog", "NNCatalog"):
            from .. import cat_common as CC
            return CC.replay_file(ctx, ctx.replay, {"flags"}, replayer=CC.NN_REPLAYER if rp["spec"] == "NNCatalog" else ("replay_catalog", "CatalogReplayer"))
        return AG.replay_file(ctx, ctx.replay, KINDS)
    rep = core.Report(ctx, "model_checking", assumptions=[
        "one context object is not entered twice concurrently; contexts exit in LIFO order (what `with` guarantees)",
        "creating a leaf with requires_grad=True while gradient mode is off, and flipping requires_grad of a tensor already used in a graph, are not fixed by the property and are outside the model",
        "release of an intermediate gradient is constrained only when the graph was built and differentiated under the same retain-all mode"])
    rep.rule = "every behaviour of the Record-mode instance (three configurations: pure context nesting, flags, release rule) up to MaxHist calls; distinct by the sequence of call kinds"
    q = ctx.quick
    AG.model_check(rep, "AG_ctx_mc", dict(MaxNodes=3, GAlpha={-2}, Ops={"mul"}, MaxBackward=1, MaxCtx=2 if q else 3,
                                          Acts={"leaf", "op", "setrg", "retain", "detach", "ctx", "bw"}, InitLeaves=L1), timeout=10000)
    AG.model_check(rep, "AG_ctxonly_mc", dict(MaxNodes=1, MaxBackward=0, MaxCtx=4 if q else 5, Acts={"ctx"}, InitLeaves=L1), timeout=10000)
    runs = [("ctxonly", dict(MaxNodes=1, GAlpha={-2}, Ops={"mul"}, MaxHist=8 if q else 10, MaxBackward=0, MaxCtx=3, Acts={"ctx"}, InitLeaves=L1), 150000),
            ("flags", dict(MaxNodes=3, GAlpha={-2}, Ops={"mul"}, MaxHist=4 if q else 5, MaxBackward=1, MaxCtx=1,
                           Acts={"leaf", "op", "setrg", "retain", "detach", "ctx", "bw"}, InitLeaves=[]), 60000 if q else None),
            ("release", dict(MaxNodes=3, GAlpha={-2}, Ops={"mul"}, MaxHist=5 if q else 6, MaxBackward=2, MaxCtx=1,
                             Acts={"op", "retain", "ctx", "bw"}, InitLeaves=L1), 60000 if q else None)]
    for name, consts, limit in runs:
        mx, table, c = AG.emit(rep, name, consts)
        AG.replay_all(ctx, rep, mx, table, c, KINDS, label=name + ":", limit=limit)
        if name == "flags":
            # the same behaviours with the requires_grad flag of leaves set through Module.freeze() / unfreeze()
            AG.replay_all(ctx, rep, mx, table, c, KINDS, label=name + ":module-route:", limit=limit, rattrs=dict(rg_route="module"))
    mx, table, c = AG.emit(rep, "sim", dict(MaxNodes=5, GAlpha={1, -2}, Ops={"mul", "add", "sum", "idx"}, UseVec=True, MaxHist=14, MaxBackward=3, MaxCtx=4,
                                           Acts={"leaf", "op", "setrg", "retain", "detach", "ctx", "bw", "zero"}, InitLeaves=L1),
                            simulate="num=%d" % (300 if q else 20000), depth=80, seed=ctx.seed + 5, workers=1)
    AG.replay_all(ctx, rep, mx, table, c, KINDS, label="sim:")
    # the requires-grad rule of Tape.tla (ResultRG) on every operation, layer and loss of the catalogues, with
    # gradient tracking on and inside no_grad, for every subset of operands that require grad
    from .. import cat_common as CC
    ft = CC.flag_table(rep)
    cases = [c for c in CC.tensor_cases(ctx, rep, with_grad=False) if c["pol"] in ("MUST", "UNDEF")]
    CC.replay(ctx, rep, cases, {"flags"}, rattrs=dict(flagtable=ft, only_flags=True))
    ncases = [c for c in CC.nn_cases(ctx, rep, with_grad=False) if c["pol"] in ("MUST", "UNDEF")]
    CC.replay(ctx, rep, ncases, {"flags"}, replayer=CC.NN_REPLAYER, spec="NNCatalog", rattrs=dict(flagtable=ft, only_flags=True))
    # code -> spec: executions recorded from the real library (random programs over a wide slice of the API)
    # are validated by TLC against the structural specification Tape.tla (TapeTrace.tla)
    from .. import tape_common as TC
    TC.tapes_part(ctx, rep, 60 if ctx.quick else 1500, False)
    rep.exhaustive = False
    return rep.finish()
