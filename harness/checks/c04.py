"""C04 - leaf gradients accumulate exactly across any history of backward calls.

Decided with spec/Autograd.tla: (1) TLC checks the design (invariant Accumulate: reverse sweeps in
every admissible order over every history equal the forward-mode sum; Untouched; NoGradOnNonReq)
exhaustively within the constants below; (2) every behaviour of the Record-mode instance is replayed
into the real library and the .grad of every tensor is compared after every call."""
import numpy as np

from ..vlib import core
from .. import ag_common as AG

KINDS = {"leaf_grad": "C04", "interior_grad": "C04"}
LEAVES2 = [dict(vec=False, rg=True), dict(vec=False, rg=True)]


def run(ctx):
    if ctx.replay:
        import json
        if (json.load(open(ctx.replay))["replay"] or {}).get("spec") == "NNCatalog":
            from .. import cat_common as CC
            return CC.replay_file(ctx, ctx.replay, {"second_backward"}, replayer=CC.NN_REPLAYER)
        if (json.load(open(ctx.replay))["replay"] or {}).get("spec") == "Modules":
            from .. import hist_common as HC
            return HC.replay_file(ctx, ctx.replay, {"grads"}, "Modules", ("replay_modules", "ModReplayer"), set_consts=("Names", "Acts"))
        return AG.replay_file(ctx, ctx.replay, KINDS)
    rep = core.Report(ctx, "model_checking", assumptions=[
        "values are small exact integers; tensors are 0-d (thorough: also shape (2,))",
        "after a reset a gradient may be None or zeros; the value of a retained interior .grad after several calls is not constrained",
        "requires_grad is not flipped on tensors already used in a recorded graph"])
    rep.rule = ("every history of the Record-mode Autograd instance (all interleavings of operator applications, backward from any "
                "node with any offered upstream gradient, retain_grad, zero_ / Module.zero_grad / Optimizer.zero_grad) up to MaxHist "
                "calls is replayed; a case is distinct by its sequence of call kinds/operators")
    if ctx.quick:
        AG.model_check(rep, "AG_hist_mc", dict(MaxNodes=4, GAlpha={-2}, Ops={"mul"}, MaxBackward=2,
                                               Acts={"op", "bw", "zero", "retain"}, InitLeaves=LEAVES2))
        AG.model_check(rep, "AG_hist_mc3", dict(MaxNodes=3, GAlpha={-2, 1}, Ops={"add", "mul"}, MaxBackward=3,
                                                Acts={"op", "bw", "zero", "retain", "zeroset"}, InitLeaves=LEAVES2))
        runs = [("hist4", dict(MaxNodes=4, GAlpha={-2}, Ops={"add", "mul"}, MaxHist=4, MaxBackward=99,
                               Acts={"op", "bw", "zero", "retain", "zeroset"}, InitLeaves=LEAVES2), 80000),
                ("hist5-narrow", dict(MaxNodes=3, GAlpha={-2}, Ops={"mul"}, MaxHist=5, MaxBackward=99,
                                      Acts={"op", "bw", "zero", "retain"}, InitLeaves=LEAVES2), 60000),
                # backward calls inside / outside no_grad and retain_grads blocks (interior gradients kept by the context)
                ("hist5-ctx", dict(MaxNodes=3, GAlpha={-2}, Ops={"mul"}, MaxHist=5, MaxBackward=99, MaxCtx=1,
                                   Acts={"op", "bw", "ctx"}, InitLeaves=LEAVES2), 60000),
                # shape-changing and multi-output operators over a vector leaf that already holds a gradient
                ("hist4-vec", dict(MaxNodes=4, GAlpha={-2, 3}, Ops={"mul", "sum", "idx", "unbind", "stack", "gather"}, UseVec=True, MaxHist=4, MaxBackward=99,
                                   Acts={"op", "bw", "zero"}, InitLeaves=[dict(vec=True, rg=True)]), 60000),
                # resets through Module.zero_grad / Optimizer.zero_grad while a parameter is frozen, then unfrozen again
                ("hist5-freeze", dict(MaxNodes=2, GAlpha={-2, 3}, Ops={"mul"}, UseVec=True, MaxHist=5, MaxBackward=99,
                                      Acts={"bw", "setrg", "zeroset", "zero"}, InitLeaves=[dict(vec=True, rg=True), dict(vec=False, rg=True)]), 60000)]
        sims = [("sim", dict(MaxNodes=6, GAlpha={1, -2, 3}, Ops={"add", "mul", "sub", "neg", "sq", "sum", "idx", "stack", "unbind"}, UseVec=True,
                             MaxHist=12, MaxBackward=99, Acts={"op", "bw", "zero", "retain", "zeroset"},
                             InitLeaves=[dict(vec=False, rg=True), dict(vec=True, rg=True), dict(vec=False, rg=False)]), 30)]
    else:
        AG.model_check(rep, "AG_hist_mc", dict(MaxNodes=4, GAlpha={1, -2}, Ops={"add", "mul"}, MaxBackward=2,
                                               Acts={"op", "bw", "zero", "retain", "zeroset"}, InitLeaves=LEAVES2), timeout=7200)
        AG.model_check(rep, "AG_hist_mc3", dict(MaxNodes=3, GAlpha={-2, 1}, Ops={"add", "mul"}, MaxBackward=4,
                                                Acts={"op", "bw", "zero", "retain", "zeroset"}, InitLeaves=LEAVES2), timeout=7200)
        # (emission sizes are kept below ~10^6 observations each: the tables live in memory)
        runs = [("hist4", dict(MaxNodes=4, GAlpha={-2}, Ops={"add", "mul"}, MaxHist=4, MaxBackward=99,
                               Acts={"op", "bw", "zero", "retain", "zeroset"}, InitLeaves=LEAVES2), None),
                ("hist5-narrow", dict(MaxNodes=3, GAlpha={-2}, Ops={"mul"}, MaxHist=5, MaxBackward=99,
                                      Acts={"op", "bw", "zero", "retain"}, InitLeaves=LEAVES2), None),
                ("hist6-ctx", dict(MaxNodes=3, GAlpha={-2}, Ops={"mul"}, MaxHist=6, MaxBackward=99, MaxCtx=1,
                                   Acts={"op", "bw", "ctx"}, InitLeaves=LEAVES2), 400000),
                ("hist4-vec", dict(MaxNodes=4, GAlpha={-2, 3}, Ops={"mul", "sum", "idx", "unbind", "stack"}, UseVec=True, MaxHist=4, MaxBackward=99,
                                   Acts={"op", "bw", "zero"}, InitLeaves=[dict(vec=True, rg=True)]), None),
                ("hist4-vec2", dict(MaxNodes=4, GAlpha={-2}, Ops={"add", "mul", "sum", "idx"}, UseVec=True, MaxHist=4, MaxBackward=99,
                                    Acts={"op", "bw", "zero", "retain"}, InitLeaves=[dict(vec=True, rg=True), dict(vec=False, rg=True)]), 400000)]
        sims = [("sim", dict(MaxNodes=7, GAlpha={1, -2, 3}, Ops={"add", "mul", "sub", "neg", "sq", "sum", "idx", "stack", "unbind", "clone"}, UseVec=True,
                             MaxHist=16, MaxBackward=99, Acts={"op", "bw", "zero", "retain", "zeroset"},
                             InitLeaves=[dict(vec=False, rg=True), dict(vec=True, rg=True), dict(vec=False, rg=False)]), 1500)]
    for name, consts, limit in runs:
        mx, table, c = AG.emit(rep, name, consts, limit=limit, seed=ctx.seed + 1, timeout=20000)
        AG.replay_all(ctx, rep, mx, table, c, KINDS, dtypes=(np.float32,) if ctx.quick else (np.float32, np.float64),
                      label=name + ":", limit=limit)
        del mx, table
    for name, consts, num in sims:
        mx, table, c = AG.emit(rep, name, consts, simulate="num=%d" % num, depth=80, seed=ctx.seed + 11, workers=1)
        AG.replay_all(ctx, rep, mx, table, c, KINDS, dtypes=(np.float32,), label=name + ":")
    # "repeat backward on the same graph" for EVERY operation, layer and loss (not only the operators of the Autograd
    # instances): the catalogue replays run a second sweep over each recorded graph; what an operation saved for its
    # backward pass must survive the first sweep
    from .. import cat_common as CC
    ncases = [c for c in CC.nn_cases(ctx, rep, with_grad=True) if c["pol"] == "MUST"]
    CC.replay(ctx, rep, ncases, {"second_backward"}, dtypes=(np.float32,), replayer=CC.NN_REPLAYER, spec="NNCatalog")
    # "zero via module" on module TREES (Modules.tla): registrations on a nested module interleaved with gradients and
    # zero_grad on an ancestor - every reachable parameter is reset, also one registered after the ancestor was first walked
    from .. import hist_common as HC
    tree = dict(NMods=2, NLeaf=0, ParSizes=[2], ParRg=[True], Names={"a"}, MaxSeq=0, MaxHist=5, Acts={"setattr", "zero", "grad"})
    mx, table, c = HC.emit(rep, "Modules", "tree-resets", tree, limit=40000 if ctx.quick else 600000, seed=ctx.seed)
    # (only what happens to gradients is C04's business: other kinds of divergence do not end a history here)
    HC.replay_all(ctx, rep, mx, table, c, {"grads"}, ("replay_modules", "ModReplayer"), "Modules", label="tree-resets:", rkw=dict(stop_kinds=["grads"]))
    rep.exhaustive = False
    rep.extra["explanation"] = ("exhaustive within the stated constants for the design and for the replayed histories; deeper histories sampled by TLC -simulate")
    return rep.finish()
