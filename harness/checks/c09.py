"""C09 - stability-critical ops stay finite and accurate for large-magnitude inputs.

spec/Saturation.tla states the exact saturated-regime semantics (piecewise rational up to e^-20) of
sigmoid, tanh, selu, softmax, log_softmax, cross-entropy and BCE-with-logits - values and gradients -
on a magnitude lattice {0, +-20, +-89, +-104, +-1000, +-10000}; TLC enumerates every element / row of
length <= MaxRow / label / target.  Every case is replayed in float32 and float64, functional and
loss-module forms: outputs and input gradients must be finite and within single precision (relative
to the magnitude of the inputs) of the specification."""
import json
import math
from fractions import Fraction

import numpy as np

from ..vlib import core, repo, tlc

ALPHA = 1.6732632423543772848170429916717
SCALE = 1.0507009873554804934193349852946


def val(e):
    unit = {"1": 1.0, "scale": SCALE, "scalealpha": SCALE * ALPHA, "kink": None}[e["u"]]
    r = float(Fraction(e["r"][0], e["r"][1]))
    k = e["ln"]
    ln = 0.0 if k in (0, 1) else (math.log(k) if k > 0 else -math.log(-k))
    if unit is None:
        return None
    return r * unit + ln


def mag(c):
    xs = c.get("row") or [c.get("x", 0)]
    return max(1.0, max(abs(v) for v in xs))


def regime(c):
    xs = c.get("row") or [c.get("x", 0)]
    m = max(abs(v) for v in xs)
    return "le20" if m <= 20 else "le104" if m <= 104 else "big"


def check_case(sg, o, variant):
    """returns list of (key, msg)"""
    F = sg.nn.functional
    nn = sg.nn
    c = o["c"]
    op = c["op"]
    out = []
    for dtype in (np.float32, np.float64):
        dn = "f32" if dtype == np.float32 else "f64"
        tol = 2e-6 * mag(c)
        try:
            with repo.quiet(), np.errstate(all="ignore"):
                if op in ("sigmoid", "tanh", "selu"):
                    x = sg.Tensor(np.array([c["x"]], dtype=dtype), requires_grad=True)
                    y = getattr(F, op)(x) if variant == 0 else {"sigmoid": nn.Sigmoid, "tanh": nn.Tanh, "selu": nn.SELU}[op]()(x)
                    y.backward(sg.Tensor(np.ones(1, dtype=dtype)))
                    got, want = y.data, [val(o["out"])]
                    gx, wantg = x.grad.data, [val(o["dx"])]
                elif op in ("softmax", "log_softmax"):
                    x = sg.Tensor(np.array([c["row"]], dtype=dtype), requires_grad=True)
                    y = getattr(F, op)(x, 1) if variant == 0 else (nn.Softmax if op == "softmax" else nn.LogSoftmax)(-1)(x)
                    y.backward(sg.Tensor(np.array([o["g"]], dtype=dtype)))
                    got, want = y.data.reshape(-1), [val(e) for e in o["out"]]
                    gx, wantg = x.grad.data.reshape(-1), [val(e) for e in o["dx"]]
                elif op == "ce":
                    x = sg.Tensor(np.array([c["row"]], dtype=dtype), requires_grad=True)
                    lab = sg.Tensor(np.array([c["y"] - 1], dtype=np.int64))
                    y = F.cross_entropy(x, lab) if variant == 0 else nn.CrossEntropyLoss(reduction="sum")(x, lab)
                    y.backward(sg.Tensor(np.ones(y.data.shape, dtype=dtype)))
                    got, want = y.data.reshape(-1), [val(o["out"])]
                    gx, wantg = x.grad.data.reshape(-1), [val(e) for e in o["dx"]]
                else:
                    x = sg.Tensor(np.array([c["x"]], dtype=dtype), requires_grad=True)
                    t = sg.Tensor(np.array([float(Fraction(*c["t"]))], dtype=dtype))
                    y = F.binary_cross_entropy_with_logits(x, t) if variant == 0 else nn.BCEWithLogitsLoss(reduction="mean")(x, t)
                    y.backward(sg.Tensor(np.ones(y.data.shape, dtype=dtype)))
                    got, want = y.data.reshape(-1), [val(o["out"])]
                    gx, wantg = x.grad.data.reshape(-1), [val(o["dx"])]
        except Exception as e:  # noqa: BLE001
            out.append(("%s:raised:%s" % (op, type(e).__name__), "%s on %s raised %s: %s" % (op, c, type(e).__name__, str(e)[:100])))
            continue
        for what, g_, w_ in (("value", got, want), ("grad", gx, wantg)):
            g_ = np.asarray(g_, dtype=np.float64).reshape(-1)
            if not np.all(np.isfinite(g_)):
                out.append(("%s:%s:nonfinite:%s:%s" % (op, what, dn, regime(c)), "%s %s on %s (%s) is not finite: %s" % (op, what, c, dn, g_.tolist())))
                continue
            for i, (a, b) in enumerate(zip(g_, w_)):
                if b is None:       # selu at its kink: anything between scale*alpha and scale
                    if not (SCALE - 1e-6 <= a <= SCALE * ALPHA + 1e-6):
                        out.append(("%s:%s:kink" % (op, what), "%s gradient at 0 is %s" % (op, a)))
                    continue
                if abs(a - b) > tol:
                    out.append(("%s:%s:inaccurate:%s:%s" % (op, what, dn, regime(c)), "%s %s on %s (%s): %s, exact %s (element %d, tolerance %g)" % (op, what, c, dn, g_.tolist(), w_, i, tol)))
                    break
    return out


def check_batched(sg, cases, fam):
    """The specification treats every row independently (softmax / cross-entropy act along one dim): all rows of one
    length are stacked into one matrix - rows of very different magnitude side by side - and every row must still
    equal its own case; softmax / log_softmax also along dim 0 of the transposed matrix."""
    F = sg.nn.functional
    out = []
    by_len = {}
    for o in cases:
        by_len.setdefault((o["c"]["op"], len(o["c"]["row"])), []).append(o)
    for (op, n), group in sorted(by_len.items()):
        rows = np.array([o["c"]["row"] for o in group], dtype=np.float64)
        for dtype in (np.float32, np.float64):
            dn = "f32" if dtype == np.float32 else "f64"
            for axis in ((1, 0) if op != "ce" else (1,)):
                try:
                    with repo.quiet(), np.errstate(all="ignore"):
                        X = sg.Tensor((rows if axis == 1 else rows.T).astype(dtype).copy(), requires_grad=True)
                        if op == "ce":
                            y = F.cross_entropy(X, sg.Tensor(np.array([o["c"]["y"] - 1 for o in group], dtype=np.int64)))
                            y.backward(sg.Tensor(np.ones(y.data.shape, dtype=dtype)))
                            got = y.data.reshape(len(group), 1)
                            want = np.array([[val(o["out"])] for o in group])
                        else:
                            y = getattr(F, op)(X, axis)
                            G = np.array([o["g"] for o in group], dtype=dtype)
                            y.backward(sg.Tensor(G if axis == 1 else G.T.copy()))
                            got = y.data if axis == 1 else y.data.T
                            want = np.array([[val(e) for e in o["out"]] for o in group])
                        gx = X.grad.data if axis == 1 else X.grad.data.T
                        wantg = np.array([[val(e) for e in o["dx"]] for o in group])
                except Exception as e:  # noqa: BLE001
                    out.append(("%s:batched:raised:%s" % (op, type(e).__name__), "%s on a matrix of %d lattice rows raised %s: %s" % (op, len(group), type(e).__name__, str(e)[:100]), group[0]))
                    continue
                tol = 2e-6 * np.maximum(1.0, np.abs(rows).max(axis=1, keepdims=True))
                for what, a, b in (("value", got, want), ("grad", gx, wantg)):
                    a = np.asarray(a, dtype=np.float64)
                    bad = ~np.isfinite(a).all(axis=1) | (np.abs(a - b) > tol).any(axis=1)
                    if bad.any():
                        i = int(np.argmax(bad))
                        out.append(("%s:%s:batched:%s:dim%d" % (op, what, dn, axis), "%s %s of row %s inside a matrix of %d lattice rows (%s, along dim %d): %s, exact %s" % (
                            op, what, group[i]["c"]["row"], len(group), dn, axis, a[i].tolist(), b[i].tolist()), group[i]))
    return out


def run(ctx):
    sg = repo.load(ctx.repo)
    q = ctx.quick
    if ctx.replay:
        o = json.load(open(ctx.replay))["replay"]
        bad = check_case(sg, o, 0) + check_case(sg, o, 1)
        for k, m in bad:
            print("DIVERGENCE", k, m)
        if bad:
            print("VIOLATION property=%s replay=%s" % (ctx.pid, ctx.replay))
            return 1
        print("replay: no divergence")
        return 0
    rep = core.Report(ctx, "model_checking", assumptions=[
        "decided in the saturated regime only (lattice gaps 0 or >= 20, where the functions are piecewise rational up to e^-20); the moderate regime is covered by the named-real-function cases of C02/C06; "
        "large magnitudes with logit gaps in (0, 20) are NOT decided",
        "single-precision accuracy relative to the input magnitude: |error| <= 2e-6 * max(1, |x|max)"])
    rep.rule = "every lattice element (elementwise ops), every row of length <= MaxRow over the lattice (softmax, log_softmax), every (row, label) (cross-entropy), every (logit, target) (BCE-with-logits); x 2 dtypes x functional / module form"
    lat = tlc.Raw("{0, 20, 0-20, 89, 0-89, 104, 0-104, 1000, 0-1000, 10000, 0-10000}")
    n = 0
    for fam, maxrow in (("elem", 1), ("softmax", 3), ("ce", 3 if q else 4), ("bce", 1)):
        w, cfg = tlc.make_mc("Saturation", dict(Lat=lat, MaxRow=maxrow, Family=fam), invariants=["Emit", "SoftmaxSumsToOne", "CENonNegative"])
        res = tlc.run_tlc("Saturation", cfg, workers=1, wrapper=w, timeout=3000, tag="Sat-" + fam)
        tlc.require_clean(res, "Saturation/" + fam)
        rep.tlc(res, "Saturation.tla family %s: %d cases" % (fam, len(res.cases)))
        for i, o in enumerate(res.cases):
            rep.case(json.dumps(o["c"], sort_keys=True))
            rep.traces += 1
            if i % 211 == 7:
                rep.sample(o, limit=5)
            for variant in (0, 1):
                for key, msg in check_case(sg, o, variant):
                    rep.violation(key, msg, o)
            n += 1
        if fam in ("softmax", "ce"):
            rep.case("batched:" + fam)
            for key, msg, o in check_batched(sg, res.cases, fam):
                rep.violation(key, msg, o)
    rep.exhaustive = True
    return rep.finish()
