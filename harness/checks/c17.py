"""C17 - backward scales to deep graphs; untracked computations keep no history.

spec/Autograd.tla: SweepOnce, liveness SweepTerminates (under the fair Spec) and NoHistory are
model-checked on all small programs.  Scale is reached by instantiating, in the real library, the
behaviour families (chain, diamond ladder, fan) whose small members the specification emitted:
the closed forms used for large N are first checked against the specification's expected gradients
for N <= 4.  Liveness: every emitted behaviour is replayed holding only its last tensor; after
gc.collect() the tensors still alive must be within the specification's LiveFrom set."""
import gc
import json
import sys
import time
import weakref

import numpy as np

from ..vlib import core, repo
from .. import ag_common as AG
from .. import replay_autograd as RA

KINDS = {"live": "C17", "once": "C17", "order": "C17", "error": "C17"}
L1 = [dict(vec=False, rg=True)]


def chain_families(sg, n, rec, dtype=np.float64):
    """Returns list of (name, expected grad of a, expected number of backward functions, observed...)."""
    out = []
    # *_twice / *_retained / *_retain_each: the measured call is a SECOND backward over the same deep chain - plain, with the
    # intermediates still holding the gradients of the first call (built and differentiated inside retain_grads()), or
    # after retain_grad() on every intermediate
    for fam in ("chain_add", "chain_mul_const", "ladder", "fan", "wide", "chain_twice", "chain_retained", "chain_retain_each"):
        a = sg.Tensor(np.array(1.5, dtype=dtype), requires_grad=True)
        h = sg.Tensor(np.array(0.5, dtype=dtype))
        one = sg.Tensor(np.array(1.0, dtype=dtype))
        x = a
        nf = 0
        if fam == "chain_add":
            for _ in range(n):
                x = x + a
            nf, want = n, float(n + 1)
        elif fam in ("chain_twice", "chain_retained", "chain_retain_each"):
            import contextlib
            with (sg.retain_grads() if fam == "chain_retained" else contextlib.nullcontext()), repo.quiet():
                for _ in range(n):
                    x = x + a
                    if fam == "chain_retain_each":
                        x.retain_grad()
                try:
                    x.backward()
                except BaseException as e:  # noqa: BLE001 - reported by the measured call below as a wrong gradient
                    pass
            nf, want = n, 2.0 * (n + 1)
        elif fam == "chain_mul_const":
            for _ in range(n):
                x = x * one
            nf, want = n, 1.0
        elif fam == "ladder":       # x -> (x + x) * 0.5 : two paths per rung
            for _ in range(n // 2):
                x = (x + x) * h
            nf, want = 2 * (n // 2), 1.0
        elif fam == "wide":         # one operation with n operands (stack of n products), then a reduction
            k = max(2, n // 10)
            x = sg.stack([a * one for _ in range(k)]).sum()
            nf, want = k + 2, float(k)
        else:                       # fan: sum of n products a * 1, built as a running sum
            acc = a * one
            for _ in range(n // 2):
                acc = acc + a * one
            x = acc
            nf, want = 1 + 2 * (n // 2), float(1 + n // 2)
        rec.calls = []
        rec.active = True
        t0 = time.time()
        err = None
        pycalls = [0]

        def prof(frame, event, arg):
            if event == "call":
                pycalls[0] += 1
        try:
            with repo.quiet():
                sys.setprofile(prof)        # deterministic cost measure: Python-level calls made by backward
                try:
                    x.backward()
                finally:
                    sys.setprofile(None)
        except BaseException as e:  # RecursionError is the historical failure
            err = type(e).__name__
        finally:
            rec.active = False
        dt = time.time() - t0
        g = None if a.grad is None else float(a.grad.data)
        out.append(dict(family=fam, n=n, want=want, got=g, fns=nf, calls=len(rec.calls), distinct=len(set(rec.calls)), err=err, secs=dt, pycalls=pycalls[0]))
        del x, a
        gc.collect()
    return out


def run(ctx):
    if ctx.replay:
        return AG.replay_file(ctx, ctx.replay, KINDS)
    rep = core.Report(ctx, "model_checking", assumptions=[
        "TLC decides the small instances (all programs up to MaxNodes); depth 10^3..5*10^4 is reached by the driver instantiating the chain / ladder / fan families, "
        "whose closed-form gradients are checked against the specification's emitted values for N <= 4",
        "memory boundedness is observed through weak references after gc.collect()"])
    rep.rule = "all small programs (TLC) + behaviour families at large N + liveness replay of every emitted behaviour; distinct by program shape / (family, N)"
    q = ctx.quick
    ALL = {"add", "mul", "sub", "neg", "sq", "sum", "idx", "stack", "unbind", "clone"}
    AG.model_check(rep, "AG_live_mc", dict(MaxNodes=4, GAlpha={-2}, Ops={"add", "mul"}, MaxBackward=1, MaxCtx=1,
                                           Acts={"op", "bw", "ctx", "leaf"}, InitLeaves=L1), liveness=True, timeout=10000)
    sg = repo.load(ctx.repo)
    # (1) the families at small N against the specification
    mx, table, c = AG.emit(rep, "families", dict(MaxNodes=5, GAlpha={1}, Ops={"add"}, MaxHist=5, MaxBackward=1, Acts={"op", "bw"}, InitLeaves=L1))
    small_ok = 0
    for hist in mx:
        # chain_add members: x_{i+1} = x_i + a, then backward from the last node
        ops = [h for h in hist if h["a"] == "op"]
        if hist[-1]["a"] != "bw" or hist[-1]["err"] or len(ops) != len(hist) - 1:
            continue
        if all(h["ch"] == [i + 1, 1] or h["ch"] == [1, i + 1] for i, h in enumerate(ops)) and hist[-1]["root"] == len(ops) + 1 and hist[-1]["g"] == []:
            obs = json.loads(table[RA.prefix_key(hist)])
            gv = obs["nodes"][0]["g"]
            if gv["t"] != "val" or gv["v"] != [len(ops) + 1]:
                raise core.Machinery("closed form of the chain family disagrees with the specification: %s" % gv)
            small_ok += 1
    if small_ok < 4:
        raise core.Machinery("chain family members not found among the emitted behaviours")
    AG.replay_all(ctx, rep, mx, table, c, KINDS, label="families:")
    # (2) scale
    rec = RA.Recorder(sg)
    sizes = [10, 1000, 10000] if q else [10, 1000, 10000, 50000]
    per = {}
    for n in sizes:
        for r in chain_families(sg, n, rec):
            rep.case("scale:%s:%d" % (r["family"], n))
            rep.sample(r, limit=8)
            per.setdefault(r["family"], []).append(r)
            key = "scale:%s" % r["family"]
            if r["err"]:
                rep.violation(key + ":" + r["err"], "backward on %s of %d operations raised %s" % (r["family"], n, r["err"]), r)
            elif r["got"] is None or abs(r["got"] - r["want"]) > 1e-6 * max(1, abs(r["want"])):
                rep.violation(key + ":grad", "gradient %s, expected %s" % (r["got"], r["want"]), r)
            elif r["calls"] and (r["calls"] != r["fns"] or r["distinct"] != r["fns"]):
                rep.violation(key + ":once", "%d backward-function invocations (%d distinct) for %d recorded operations" % (r["calls"], r["distinct"], r["fns"]), r)
    # linear cost: the number of Python-level calls made by backward per recorded operation must not grow with the
    # size of the graph (deterministic; wall-clock times are reported but not judged)
    for fam, rs in per.items():
        big = [r for r in rs if r["n"] >= 10000 and not r["err"]]
        mid = [r for r in rs if r["n"] == 1000 and not r["err"]]
        if big and mid and mid[0]["pycalls"] > 0:
            ratio = (big[-1]["pycalls"] / big[-1]["fns"]) / (mid[0]["pycalls"] / mid[0]["fns"])
            rep.extra.setdefault("calls_per_op_ratio", {})[fam] = round(ratio, 2)
            if ratio > 1.5:
                rep.violation("scale:%s:superlinear" % fam, "Python-level calls per recorded operation grow %.1fx from N=1000 to N=%d (%d -> %d calls)" % (
                    ratio, big[-1]["n"], mid[0]["pycalls"], big[-1]["pycalls"]), big[-1])
    # (3) liveness of untracked computations
    mx, table, c = AG.emit(rep, "live", dict(MaxNodes=4 if q else 5, GAlpha={1}, Ops={"mul"} if q else {"add", "mul"}, MaxHist=5, MaxBackward=1, MaxCtx=1,
                                             Acts={"op", "ctx", "bw", "detach"}, InitLeaves=[dict(vec=False, rg=True), dict(vec=False, rg=False)]))
    AG.replay_all(ctx, rep, mx, table, c, KINDS, label="live:", limit=30000 if q else 200000, live=True)
    steps = 20000 if q else 100000
    # untracked loops.  no_grad: a fresh context; no_req: no operand requires grad; reentered: a no_grad object built
    # while tracking was on is entered and left again inside the block at every step; opt_step: an optimizer takes a
    # step inside the block at every step (running averages of the weights) - tracking must stay off after either
    # detached: tracking is ON, the state is carried through detach() at every step (truncated back-propagation)
    for mode in ("no_grad", "no_req", "reentered", "opt_step_sgd", "opt_step_adam", "detached"):
        w = sg.Tensor(np.array(1.0, dtype=np.float32), requires_grad=(mode != "no_req"))
        x = sg.Tensor(np.array(1.0, dtype=np.float32))
        refs = []
        inner = sg.no_grad() if mode == "reentered" else None
        opt = None
        if mode.startswith("opt_step"):
            w.grad = sg.Tensor(np.array(0.0, dtype=np.float32))
            opt = sg.optim.SGD([w], lr=0.0) if mode.endswith("sgd") else sg.optim.Adam([w], lr=0.0)
        cm = sg.no_grad() if mode not in ("no_req", "detached") else None
        if cm:
            cm.__enter__()
        try:
            for i in range(steps):
                if inner is not None:
                    with inner:
                        pass
                if opt is not None and i % 50 == 0:
                    with repo.quiet():
                        opt.step()
                x = x * w + 0.0
                if i % 100 == 0:
                    refs.append(weakref.ref(x))
                if mode == "detached":
                    x = x.detach()
        finally:
            if cm:
                cm.__exit__(None, None, None)
        gc.collect()
        alive = sum(1 for r in refs if r() is not None)
        rep.case("loop:" + mode)
        rep.sample(dict(loop=mode, steps=steps, sampled=len(refs), alive=alive))
        if alive > 2:
            rep.violation("live:loop:" + mode, "%d of %d sampled intermediates of a %d-step untracked loop (%s) are still alive" % (alive, len(refs), steps, mode))
    # bounded memory: the number of live Tensor objects after an untracked loop does not depend on its length, also when
    # the Python-number operands take a new value at every step (running means, decaying step sizes)
    def live_tensors():
        gc.collect()
        return sum(1 for o in gc.get_objects() if isinstance(o, sg.Tensor))
    for mode in ("no_grad", "no_req"):
        counts = []
        for n in (500, 4000):
            w = sg.Tensor(np.array(1.0, dtype=np.float32), requires_grad=(mode == "no_grad"))
            m = sg.Tensor(np.array(0.0, dtype=np.float32))
            base = live_tensors()
            cm = sg.no_grad() if mode == "no_grad" else None
            if cm:
                cm.__enter__()
            try:
                for t in range(n):
                    m = m * (1 - 1 / (t + 2)) + w * (1 / (t + 2)) - 0.001 * t / (t + 1.5)
                    m = (2.0 + t) / (m + 3.0 + t) * 1.0
            finally:
                if cm:
                    cm.__exit__(None, None, None)
            counts.append(live_tensors() - base)
            del m, w
        rep.case("live-count:" + mode)
        rep.sample(dict(loop="changing-scalars:" + mode, steps=[500, 4000], live_tensors_left=counts))
        if counts[1] > counts[0] + 20:
            rep.violation("live:count-grows:" + mode, "live Tensor objects left by an untracked loop with changing Python-number operands: %d after 500 steps, %d after 4000 steps" % (counts[0], counts[1]))
    rep.exhaustive = False
    return rep.finish()
