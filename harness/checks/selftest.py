"""./vcheck selftest - the invariants are able to fail (spec mutants) and the runs are not vacuous.

Each mutant is a textual change of a specification module, placed next to the generated root module so
that it shadows the real one; TLC must report the named invariant / property as violated."""
import os

from ..vlib import core, tlc
from .. import ag_common as AG

SPEC = tlc.SPEC_DIR


def mutate(module, old, new):
    s = open(os.path.join(SPEC, module + ".tla")).read()
    if s.count(old) < 1:
        raise core.Machinery("mutant anchor not found in %s: %s" % (module, old[:50]))
    return {module + ".tla": s.replace(old, new, 1)}


def expect_violation(rep, name, module, consts, invariants, properties, files, expected, spec=None, constraints=(), extra=""):
    w, cfg = tlc.make_mc(module, consts, invariants=invariants, properties=properties, spec=spec, constraints=constraints, extra_defs=extra)
    res = tlc.run_tlc(module, cfg, workers=8, wrapper=w, extra_files=files, timeout=1200, tag="mutant-" + name)
    rep.case("mutant:" + name)
    rep.tlc(res, "spec mutant " + name)
    got = res.violation or res.error
    ok = res.violation is not None and any(e in str(res.violation) for e in expected)
    rep.sample(dict(mutant=name, expected=expected, tlc_reports=str(got)[:120]), limit=20)
    if not ok:
        rep.violation("selftest:mutant-survived:" + name, "spec mutant %s: expected %s to be violated, TLC reports %s" % (name, expected, got))


def run(ctx):
    rep = core.Report(ctx, "other")
    rep.rule = "spec mutants: each must make TLC report the named invariant violated"
    L2 = [dict(vec=False, rg=True), dict(vec=False, rg=True)]
    ag = dict(AG.BASE, MaxNodes=4, GAlpha={-2}, Ops={"add", "mul"}, MaxBackward=2, Acts={"op", "bw", "zero", "retain"}, InitLeaves=L2)
    expect_violation(rep, "sweep-without-consumers-first", "Autograd", ag, AG.INVS, AG.PROPS,
                     mutate("Autograd", "     /\\ Ready(n)\n", "     /\\ TRUE\n"), ["Accumulate"])
    expect_violation(rep, "mul-vjp-uses-own-value", "Autograd", ag, AG.INVS, AG.PROPS,
                     mutate("Autograd", "Unb(c, [e \\in 1..sz |-> m[e] * El(o, e)])", "Unb(c, [e \\in 1..sz |-> m[e] * El(c, e)])"), ["Accumulate"])
    expect_violation(rep, "leaf-grad-assigned-not-accumulated", "Autograd", ag, AG.INVS, AG.PROPS,
                     mutate("Autograd", "IF n \\in S THEN GVal(VAdd(GradAsVal(n), sw.msg[n]))", "IF n \\in S THEN GVal(sw.msg[n])"), ["Accumulate"])
    ctxc = dict(AG.BASE, MaxNodes=1, MaxBackward=0, MaxCtx=3, Acts={"ctx"}, InitLeaves=[dict(vec=False, rg=True)])
    expect_violation(rep, "ctx-saves-mode-at-construction", "Autograd", ctxc, AG.INVS, AG.PROPS,
                     mutate("Autograd", "![c].saved = cur]", "![c].saved = (IF kind = \"ng\" THEN TRUE ELSE FALSE)]"), ["CtxRestore"])
    expect_violation(rep, "frozen-parameter-updated", "Optim",
                     dict(Kind="sgd", Hypers=tlc.Raw("{[lr |-> <<1,2>>, mom |-> <<0,1>>, damp |-> <<0,1>>, wd |-> <<1,4>>, nesterov |-> FALSE, maximize |-> FALSE]}"),
                          Scales={1}, Variant="negate_first", MaxHist=0, Record=False, Acts={"bw", "zero", "step", "freeze"}, MaxLevel=6),
                     [], ["OnlyActiveMove", "StateIndependent", "StepKeepsGrads"],
                     mutate("Optim", "Active(k) == k \\in Given /\\ rg[k] /\\ g[k] # None", "Active(k) == k \\in Given /\\ g[k] # None"), ["OnlyActiveMove"],
                     constraints=["LevelBound"])
    cfgs = tlc.Raw("{[E |-> 1, NB |-> 2, NV |-> 1, NT |-> 1]}")
    expect_violation(rep, "step-without-zero-grad", "Trainer", dict(Cfgs=cfgs), ["StepCount", "HistLen", "GradModeRestored"],
                     ["StepGuard", "EvalFrozen", "ParamsOnlyInStep", "StatsOnlyInTrainFwd"],
                     mutate("Trainer", "  /\\ phase = \"train\" /\\ fwd /\\ zeroed /\\ ~bwdone /\\ gmode", "  /\\ phase = \"train\" /\\ fwd /\\ ~bwdone /\\ gmode"), ["StepGuard"])
    expect_violation(rep, "validation-leaves-no-grad-on", "Trainer", dict(Cfgs=cfgs), ["StepCount", "HistLen", "GradModeRestored"], [],
                     mutate("Trainer", "  /\\ ngdepth' = 0 /\\ gmode' = saved ", "  /\\ ngdepth' = 0 /\\ gmode' = FALSE "), ["GradModeRestored"])
    # the mode restored is the one found on entry, not "enabled": test() inside the caller's own no_grad block
    expect_violation(rep, "validation-restores-enabled-instead-of-found", "Trainer", dict(Cfgs=cfgs), ["StepCount", "HistLen", "GradModeRestored"], [],
                     mutate("Trainer", "  /\\ ngdepth' = 0 /\\ gmode' = saved ", "  /\\ ngdepth' = 0 /\\ gmode' = TRUE "), ["GradModeRestored"])
    idc = dict(Family="id", MaxBasis=4, WithGrad=False, Sizes={1, 2}, MaxRank=2, Axis2Set=tlc.Raw("{<<3,2,1,0,1>>, <<4,2,1,1,2>>}"), NCSet=tlc.Raw("{<<1,1,1>>}"))
    expect_violation(rep, "mean-divides-by-wrong-count", "Identities", idc, ["IdentityHolds"], [],
                     mutate("TensorAlg", "Mono(<<1, Len(G[j])>>, <<<<1, G[j][t], 1>>>>)", "Mono(<<1, Len(G[j]) + 1>>, <<<<1, G[j][t], 1>>>>)"), ["IdentityHolds"])
    expect_violation(rep, "conv-ignores-dilation", "Identities", idc, ["IdentityHolds"], [],
                     mutate("ConvGeom", "SrcPos(o, j, s, p, d) == o * s + j * d - p", "SrcPos(o, j, s, p, d) == o * s + j - p")
                     if False else _conv_only_mutant(), ["IdentityHolds"])
    nnc = dict(Family="im2col", MaxBasis=4, WithGrad=False, AxisSet=tlc.Raw("{}"), Axis2Set=tlc.Raw("{<<3,2,1,0,1>>, <<4,2,2,1,1>>}"), NCSet=tlc.Raw("{<<1,1,1>>}"))
    expect_violation(rep, "col2im-not-the-transpose", "NNCatalog", nnc, ["GeomFacts"], [],
                     mutate("ConvGeom", "WinSrc(sp, g, Unravel(l, osz), Unravel(jj, g.k)) = <<px>>}\n         IN PolyForm",
                            "WinSrc(sp, g, Unravel(l, osz), Unravel(K - 1 - jj, g.k)) = <<px>>}\n         IN PolyForm"), ["GeomFacts"])
    rep.extra["explanation"] = "self-test of the specifications: %d mutants, every one must be detected by its invariant" % rep.evaluations
    return rep.finish()


def _conv_only_mutant():
    # the convolution form ignores dilation while unfold honours it: the two independently written definitions disagree
    s = open(os.path.join(SPEC, "ConvGeom.tla")).read()
    old = "           IN Flatten([cj \\in 1..(C * K) |-> Term((cj - 1) \\div K, (cj - 1) % K)])"
    if old not in s:
        raise core.Machinery("mutant anchor not found in ConvGeom (conv)")
    s2 = s.replace("               Term(c, jj) == LET j == Unravel(jj, g.k)  src == WinSrc(sp, g, o, j) IN",
                   "               Term(c, jj) == LET j == Unravel(jj, g.k)  src == WinSrc(sp, [g EXCEPT !.d = [a \\in 1..NAx(g) |-> 1]], o, j) IN", 1)
    if s2 == s:
        raise core.Machinery("mutant anchor not found in ConvGeom (Term)")
    return {"ConvGeom.tla": s2}
