"""C02 - backward of every nn op / layer / loss yields the exact vector-Jacobian product.

spec/NNCatalog.tla over spec/ConvGeom.tla: convolutions, linear, average pooling, unfold / fold, MSE
and NLL are exact polynomial forms whose VJP TLC derives mechanically; max pooling and the relu family
have sub-gradient sets; softmax / log_softmax along any dim, BCE, BCE-with-logits, cross-entropy,
tanh / sigmoid / selu and batch normalisation in every mode are sums of named real functions whose
structure (grouping, windows, reduction, argument roles) the specification fixes and whose partial
derivatives the driver takes from the textbook definition (mpmath).  Every case is replayed in both
dtypes, for every subset of differentiable operands requiring grad (weights, biases, scale / shift,
both arguments of the symmetric MSE loss), with basis / negative / generic / ones upstream gradients."""
from ..vlib import core
from .. import cat_common as CC

KINDS = {"second_backward", "grad_value", "backward_error"}


def run(ctx):
    if ctx.replay:
        import json as _json
        if (_json.load(open(ctx.replay))["replay"] or {}).get("spec") == "NormDrop":
            from .. import hist_common as HC
            from . import c13
            return HC.replay_file(ctx, ctx.replay, {"input_grad"}, "NormDrop", c13.RP, set_consts=("Acts",), raw_consts=("StatsSet",))
        return CC.replay_file(ctx, ctx.replay, KINDS, replayer=CC.NN_REPLAYER)
    rep = core.Report(ctx, "model_checking", assumptions=[
        "full per-axis geometry grid in 1-D (conv1d, pool1d); 2-D operations on pairs of per-axis geometries from a reduced set (quick) / the full small grid (thorough)",
        "named real functions: values and partial derivatives interpreted with mpmath from the definition; at kinks (relu family at 0, pooling ties) any valid sub-gradient is accepted",
        "batch-norm eval mode is exercised at non-trivial running statistics (mean 1,2,.. var 1,5/4,..)"])
    rep.rule = "every case emitted by TLC for the nn families; distinct by (op, arguments/geometry, shapes, value pattern)"
    cases = CC.nn_cases(ctx, rep, with_grad=True)
    CC.replay(ctx, rep, cases, KINDS, replayer=CC.NN_REPLAYER, spec="NNCatalog")
    # the stateful layer form: BatchNorm modules over call histories (spec/NormDrop.tla)
    from . import c13
    c13.bn_history_runs(ctx, rep, {"input_grad"}, {"mode", "fwd", "bnbwd"}, 5 if ctx.quick else 6, "bnbwd")
    rep.exhaustive = True
    rep.extra["cases"] = len(cases)
    return rep.finish()
