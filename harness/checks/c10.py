"""C10 - results and gradients keep the operand's floating dtype and exact shape.

Typing layer of the case machines: every catalogue case is run on float32 and on float64 operands
(Python-scalar operands included, 0-d results included); the result dtype must be the operand dtype,
every .grad must have its tensor's shape and dtype whatever the dtype of the upstream gradient, and
the float32 result must agree with the float64 result to single precision."""
from ..vlib import core
from .. import cat_common as CC

KINDS = {"result_dtype", "grad_dtype", "grad_shape", "f32_vs_f64"}


def run(ctx):
    if ctx.replay:
        return CC.replay_file(ctx, ctx.replay, KINDS)
    rep = core.Report(ctx, "model_checking", assumptions=[
        "typing rule of the specification: all operands float32 -> float32, all float64 -> float64, a Python scalar keeps the tensor's dtype; mixed dtypes unconstrained",
        "single-precision agreement is decided by comparing the float32 run with the float64 run of the same case"])
    rep.rule = "every catalogue case x {float32, float64} x upstream gradient of the same and of the other dtype"
    cases = CC.tensor_cases(ctx, rep, with_grad=True)
    CC.replay(ctx, rep, cases, KINDS, cross_g=True)
    rep.exhaustive = True
    return rep.finish()
