"""C10 - results and gradients keep the operand's floating dtype and exact shape.

Typing layer of the case machines: every catalogue case is run on float32 and on float64 operands
(Python-scalar operands included, 0-d results included); the result dtype must be the operand dtype,
every .grad must have its tensor's shape and dtype whatever the dtype of the upstream gradient, and
the float32 result must agree with the float64 result to single precision."""
from ..vlib import core
from .. import cat_common as CC

KINDS = {"result_dtype", "grad_dtype", "grad_shape", "f32_vs_f64"}


def run(ctx):
    if ctx.replay:
        import json
        spec = (json.load(open(ctx.replay))["replay"] or {}).get("spec")
        if spec == "NormDrop" and json.load(open(ctx.replay))["replay"].get("layer") == "drop":
            from . import c13
            return c13.replay_drop_file(ctx, dict(json.load(open(ctx.replay))["replay"], kinds=["dtype"]))
        if spec == "NormDrop":
            from .. import hist_common as HC
            from . import c13
            return HC.replay_file(ctx, ctx.replay, {"dtype"}, "NormDrop", c13.RP, set_consts=("Acts",), raw_consts=("StatsSet",))
        return CC.replay_file(ctx, ctx.replay, KINDS, replayer=CC.NN_REPLAYER if spec == "NNCatalog" else ("replay_catalog", "CatalogReplayer"))
    rep = core.Report(ctx, "model_checking", assumptions=[
        "typing rule of the specification: all operands float32 -> float32, all float64 -> float64, a Python scalar keeps the tensor's dtype; mixed dtypes unconstrained",
        "single-precision agreement is decided by comparing the float32 run with the float64 run of the same case"])
    rep.rule = "every catalogue case x {float32, float64} x upstream gradient of the same and of the other dtype"
    cases = CC.tensor_cases(ctx, rep, with_grad=True)
    CC.replay(ctx, rep, cases, KINDS, cross_g=True)
    # nn ops / layers / losses (typing layer of NNCatalog)
    ncases = CC.nn_cases(ctx, rep, with_grad=True)
    CC.replay(ctx, rep, ncases, KINDS, cross_g=True, replayer=CC.NN_REPLAYER, spec="NNCatalog")
    # layers with state: dtype of outputs and buffers over call histories (NormDrop)
    from .. import hist_common as HC
    from ..vlib import tlc
    from . import c13
    for dt in ("float32", "float64"):
        consts = dict(Layer="bn", Batches=c13.B2, NC=2, Momentum=[[1, 2]], Affine=True, Track=True, Gamma=[[2, 1], [-1, 1]], Beta=[[1, 1], [3, 1]],
                      StatsSet=c13.STATS, PDrop=[1, 2], Inputs=[], GradsIn=[], MaxHist=4, Acts={"mode", "fwd"})
        mx, table, c = HC.emit(rep, "NormDrop", "bn-dtype-" + dt, consts)
        HC.replay_all(ctx, rep, mx, table, dict(c, StatsSet=str(c["StatsSet"])), {"dtype"}, c13.RP, "NormDrop", label="bn-" + dt + ":", rkw=dict(dtype=dt), procs=8)
    # Dropout: p = 0 and p = 1 (float and int forms) are the configurations without rescaling
    from ..vlib import repo
    c13.drop_history_runs(ctx, rep, repo.load(ctx.repo), {"dtype"}, 3, dtypes=("float32", "float64"), forms=(False, True), draws=1)
    rep.exhaustive = True
    return rep.finish()
