"""C03 - gradients of arbitrary op compositions obey the chain rule on any DAG.

spec/Autograd.tla: TLC enumerates every program (every operator application on every choice of
operands: fan-out, the same tensor twice, diamonds, multi-output unbind, operands that do not require
grad), every root, every admissible sweep order; invariant Accumulate = the reverse sweep equals the
forward-mode (dual number) derivative; SweepOnce = each backward function exactly once.  Every program
of the Record-mode instance is then executed by the real library: leaf gradients, the set and the
order of backward-function invocations are compared."""
import numpy as np

from ..vlib import core
from .. import ag_common as AG

KINDS = {"leaf_grad": "C03", "once": "C03", "order": "C03", "error": "C03", "value": "C03"}
ALL = {"add", "mul", "sub", "neg", "sq", "sum", "idx", "stack", "unbind", "clone", "gather", "vmax"}
CORE = {"add", "mul", "sub", "sq", "sum", "idx", "stack", "unbind"}      # (the thorough tier's deepest instances: 8 operators keep TLC within its heap)
VS = [dict(vec=True, rg=True), dict(vec=False, rg=True)]
SS = [dict(vec=False, rg=True), dict(vec=False, rg=False)]
VN = [dict(vec=True, rg=False), dict(vec=False, rg=True)]


def run(ctx):
    if ctx.replay:
        return AG.replay_file(ctx, ctx.replay, KINDS)
    rep = core.Report(ctx, "model_checking", assumptions=[
        "values are small exact integers; tensors are 0-d or of shape (2,)",
        "operator alphabet of the program-level specification: add mul sub neg pow2 clone sum index stack unbind "
        "(the per-operator Jacobians of the whole catalogue are C01/C02)"])
    rep.rule = ("every program of the Record-mode Autograd instance (every sequence of operator applications on every choice of operands, "
                "then backward from any node with None / an offered upstream gradient) is executed by the library; distinct by the sequence of operators")
    if ctx.quick:
        AG.model_check(rep, "AG_prog_mc", dict(MaxNodes=4, GAlpha={-2}, Ops=ALL, UseVec=True, MaxBackward=1, Acts={"op", "bw"}, InitLeaves=VS))
        AG.model_check(rep, "AG_prog_mc_scalar5", dict(MaxNodes=5, GAlpha={-2}, Ops={"add", "mul", "sub"}, MaxBackward=1, Acts={"op", "bw"}, InitLeaves=SS))
        # (upstream gradients of vector roots have distinct entries: a uniform one hides mis-paired operands)
        runs = [("prog-vec", dict(MaxNodes=4, GAlpha={-2, 3}, Ops=ALL, UseVec=True, MaxHist=3, MaxBackward=1, Acts={"op", "bw"}, InitLeaves=VS), None),
                ("prog-vec-nograd", dict(MaxNodes=4, GAlpha={3, -2}, Ops=ALL, UseVec=True, MaxHist=3, MaxBackward=1, Acts={"op", "bw"}, InitLeaves=VN), None),
                ("prog-scalar5", dict(MaxNodes=5, GAlpha={-2}, Ops={"add", "mul"}, MaxHist=4, MaxBackward=1, Acts={"op", "bw"}, InitLeaves=SS), 60000),
                # an earlier result (root or interior of a previous backward) reused inside a new graph that is differentiated again
                ("prog-reuse", dict(MaxNodes=4, GAlpha={-2}, Ops={"add", "mul"}, MaxHist=4, MaxBackward=2, Acts={"op", "bw"}, InitLeaves=SS), 40000),
                # a vector consumed through a multi-output / indexing operator AND by another operator (fan-out across unbind)
                # tensors / parameters constructed from an existing leaf are leaves of their own
                ("prog-copy", dict(MaxNodes=4, GAlpha={-2, 3}, Ops={"add", "mul"}, UseVec=True, MaxHist=4, MaxBackward=1,
                                   Acts={"op", "bw", "copyleaf"}, InitLeaves=[dict(vec=True, rg=True)]), 40000),
                ("prog-fanout", dict(MaxNodes=5, GAlpha={-2, 3}, Ops={"unbind", "idx", "gather", "vmax", "sum", "add"}, UseVec=True, MaxHist=4, MaxBackward=1,
                                     Acts={"op", "bw"}, InitLeaves=[dict(vec=True, rg=True)]), 30000)]
        sims = [("sim", dict(MaxNodes=9, GAlpha={1, -2, 3}, Ops=ALL, UseVec=True, MaxHist=9, MaxBackward=1, Acts={"op", "bw"},
                             InitLeaves=[dict(vec=False, rg=True), dict(vec=True, rg=True), dict(vec=False, rg=False)]), 80)]
    else:
        AG.model_check(rep, "AG_prog_mc4", dict(MaxNodes=4, GAlpha={-2}, Ops=ALL, UseVec=True, MaxBackward=1, Acts={"op", "bw"}, InitLeaves=VS), timeout=10000)
        AG.model_check(rep, "AG_prog_mc", dict(MaxNodes=5, GAlpha={-2}, Ops=CORE, UseVec=True, MaxBackward=1, Acts={"op", "bw"}, InitLeaves=VS), timeout=10000)
        AG.model_check(rep, "AG_prog_mc_scalar6", dict(MaxNodes=6, GAlpha={-2}, Ops={"add", "mul"}, MaxBackward=1, Acts={"op", "bw"}, InitLeaves=SS), timeout=10000)
        runs = [("prog-vec", dict(MaxNodes=5, GAlpha={-2, 3}, Ops=CORE, UseVec=True, MaxHist=4, MaxBackward=1, Acts={"op", "bw"}, InitLeaves=VS), 800000),
                ("prog-vec-all", dict(MaxNodes=4, GAlpha={-2, 3}, Ops=ALL, UseVec=True, MaxHist=3, MaxBackward=1, Acts={"op", "bw"}, InitLeaves=VS), None),
                ("prog-copy", dict(MaxNodes=5, GAlpha={-2, 3}, Ops={"add", "mul"}, UseVec=True, MaxHist=5, MaxBackward=1,
                                   Acts={"op", "bw", "copyleaf"}, InitLeaves=[dict(vec=True, rg=True)]), 400000),
                ("prog-gather", dict(MaxNodes=5, GAlpha={-2, 3}, Ops={"gather", "idx", "sum", "add", "mul"}, UseVec=True, MaxHist=4, MaxBackward=1,
                                     Acts={"op", "bw"}, InitLeaves=[dict(vec=True, rg=True)]), 400000),
                ("prog-vec-nograd", dict(MaxNodes=4, GAlpha={3, -1}, Ops=ALL, UseVec=True, MaxHist=3, MaxBackward=1, Acts={"op", "bw"}, InitLeaves=VN), None),
                ("prog-scalar5", dict(MaxNodes=5, GAlpha={-2}, Ops={"add", "mul", "sub"}, MaxHist=4, MaxBackward=1, Acts={"op", "bw"}, InitLeaves=SS), None),
                ("prog-reuse", dict(MaxNodes=5, GAlpha={-2}, Ops={"add", "mul"}, MaxHist=5, MaxBackward=2, Acts={"op", "bw"}, InitLeaves=SS), 400000),
                ("prog-fanout", dict(MaxNodes=6, GAlpha={-2, 3}, Ops={"unbind", "idx", "sum", "sq", "add", "mul", "stack"}, UseVec=True, MaxHist=4, MaxBackward=1,
                                     Acts={"op", "bw"}, InitLeaves=[dict(vec=True, rg=True)]), 400000)]
        sims = [("sim", dict(MaxNodes=12, GAlpha={1, -2, 3}, Ops=ALL, UseVec=True, MaxHist=12, MaxBackward=1, Acts={"op", "bw"},
                             InitLeaves=[dict(vec=False, rg=True), dict(vec=True, rg=True), dict(vec=False, rg=False)]), 20000)]
    for name, consts, limit in runs:
        mx, table, c = AG.emit(rep, name, consts, limit=limit, seed=ctx.seed + 1, timeout=20000)
        AG.replay_all(ctx, rep, mx, table, c, KINDS, dtypes=(np.float32,) if ctx.quick else (np.float32, np.float64), label=name + ":", limit=limit)
    for name, consts, num in sims:
        mx, table, c = AG.emit(rep, name, consts, simulate="num=%d" % num, depth=60, seed=ctx.seed + 3, workers=1)
        AG.replay_all(ctx, rep, mx, table, c, KINDS, label=name + ":")
    # code -> spec: executions recorded from the real library (random programs over a wide slice of the API, the repository's own tests)
    # are validated by TLC against the structural specification Tape.tla (TapeTrace.tla)
    from .. import tape_common as TC
    TC.tapes_part(ctx, rep, 60 if ctx.quick else 1500, True)
    rep.exhaustive = False
    return rep.finish()
