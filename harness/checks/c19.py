"""C19 - results are reproducible under manual_seed and independent of hash order.

spec/Rng.tla: all programs of at most MaxHist calls over manual_seed and the random-consuming API
(rand / randn / normal / randint, nn.init, layer constructors, training-mode Dropout forward+backward,
shuffled split, a 3-step training run whose backward-function order is part of the output); the
specification tags every output with its determinism key (seed, draws since seeding).  The driver
executes every program in this process, a sample again in this process with a perturbed allocation
layout and in fresh interpreters under several PYTHONHASHSEED values: all outputs with the same
seeded key must be bit-identical (SHA-256), across programs, runs and processes."""
import json
import os
import random
import subprocess
import sys

from ..vlib import core, repo, tlc
from .. import rng_prog


def run(ctx):
    q = ctx.quick
    sg = repo.load(ctx.repo)
    rep = core.Report(ctx, "exploration", assumptions=[
        "the quantifier 'all seeds / all hash seeds / all allocation layouts' is sampled: seeds {0, 1}, PYTHONHASHSEED in {0, 1, 12345, random}",
        "child interpreters run with OPENBLAS_NUM_THREADS=1 OMP_NUM_THREADS=1 so that a threaded BLAS reduction cannot be the reason two runs differ",
        "real-valued data, so that a change of summation order changes bits"])
    rep.rule = "every program emitted by TLC from spec/Rng.tla (all call sequences up to MaxHist); an output is non-trivial when its determinism key is seeded; distinct by key"
    apis = {"rand", "randn", "normal", "randint", "init", "layers", "dropout", "split", "train", "tied", "cnn", "views", "large", "fanout", "onehot"}
    if ctx.replay:
        progs = [json.load(open(ctx.replay))["replay"]["hist"]]
        keysl = [json.load(open(ctx.replay))["replay"]["keys"]]
    else:
        w, cfg = tlc.make_mc("Rng", dict(Seeds={0, 1}, APIs=apis, MaxHist=3 if q else 4, PureAPIs={"onehot"}), invariants=["Emit", "KeyForgetsPast"])
        res = tlc.run_tlc("Rng", cfg, workers=1, wrapper=w, timeout=3000)
        tlc.require_clean(res, "Rng")
        rep.tlc(res, "Rng.tla: %d programs" % len(res.cases))
        seen = {}
        for o in res.cases:
            seen[json.dumps(o["hist"])] = o
        progs = [o["hist"] for o in seen.values() if o["hist"]]
        keysl = [o["keys"] for o in seen.values() if o["hist"]]
    table = {}      # determinism key -> (hash, program that produced it first)

    def feed(hist, keys, hashes, where):
        for i, (k, hv) in enumerate(zip(keys, hashes)):
            if not k["seeded"] or hv is None:
                continue
            kk = json.dumps([k["seed"], k["draws"]])
            rep.nontrivial.add(kk)
            if kk in table and table[kk][0] != hv:
                api = hist[i].get("api", "?")
                rep.violation("nondeterministic:%s:%s" % (api, where), "output of %s with determinism key (seed %s, draws %s) differs between %s and %s" % (
                    api, k["seed"], k["draws"], table[kk][1], where), dict(hist=hist, keys=keys))
            table.setdefault(kk, (hv, where))
    for hist, keys in zip(progs, keysl):
        rep.evaluations += 1
        feed(hist, keys, rng_prog.run_program(sg, hist), "run 1")
    rnd = random.Random(ctx.seed)
    sample = list(zip(progs, keysl))
    rnd.shuffle(sample)
    again = sample[: (150 if q else 2000)]
    for hist, keys in again:
        rep.evaluations += 1
        feed(hist, keys, rng_prog.run_program(sg, hist, junk=rnd.randint(1, 50)), "run 2 (same process, perturbed allocations)")
    # fresh interpreters under different hash seeds
    cross = sample[: (40 if q else 400)]
    # (stratified: every random-consuming API occurs in at least two of the programs sent to the fresh interpreters)
    for api in sorted(apis):
        have = sum(1 for h_, _ in cross if any(c.get("api") == api for c in h_))
        for h_, k_ in sample:
            if have >= 2:
                break
            if any(c.get("api") == api for c in h_) and not any(h_ is x for x, _ in cross):
                cross.append((h_, k_))
                have += 1
    sc = tlc.scratch()
    payload = os.path.join(sc, "rng_programs.json")
    json.dump([[h_, rnd.randint(0, 30)] for h_, _ in cross], open(payload, "w"))
    root = os.path.dirname(os.path.dirname(os.path.dirname(os.path.abspath(__file__))))
    for hs in ("0", "1", "12345", "random"):
        env = dict(os.environ, PYTHONHASHSEED=hs, OPENBLAS_NUM_THREADS="1", OMP_NUM_THREADS="1", PYTHONDONTWRITEBYTECODE="1")
        p = subprocess.run([sys.executable, os.path.join(root, "harness", "rng_prog.py"), ctx.repo, payload], capture_output=True, text=True, env=env, cwd=root, timeout=3000)
        if p.returncode != 0:
            raise core.Machinery("child interpreter failed: " + p.stderr[-500:])
        outs = json.loads(p.stdout.strip().splitlines()[-1])
        for (hist, keys), hashes in zip(cross, outs):
            rep.evaluations += 1
            rep.traces += 1
            feed(hist, keys, hashes, "fresh process PYTHONHASHSEED=" + hs)
    rep.sample(dict(program=progs[len(progs) // 2], keys=keysl[len(progs) // 2]))
    rep.exhaustive = False
    if ctx.replay:
        for k, (m, r, c) in rep.violations.items():
            print("DIVERGENCE", k, m)
        print("VIOLATION property=%s replay=%s" % (ctx.pid, ctx.replay) if rep.violations else "replay: no divergence")
        return 1 if rep.violations else 0
    return rep.finish()
