"""C12 - module trees report each parameter once and propagate mode to all descendants.

spec/Modules.tla: all histories of attribute assignment (module / parameter / None / other value, by
__setattr__ or register_*), Sequential(list | ordered dict), train/eval/freeze/unfreeze/zero_grad on
any node.  TLC checks Acyclic, NoDupComplete, CountsAddUp, OneRegistrationPerName, ModePropagates,
FreezeExact; every behaviour is replayed on real nn.Module objects and parameters() (identities, in
order), submodules(), num_params() in its three forms, .training of every module, requires_grad and
gradient presence of every parameter and the value of calling each Sequential are compared."""
from ..vlib import core
from .. import hist_common as HC

KINDS = {"api", "error", "structure", "params", "mode", "call", "flags", "grads"}
INV = ["Acyclic", "NoDupComplete", "CountsAddUp", "OneRegistrationPerName"]
PROPS = ["ModePropagates", "FreezeExact"]
RP = ("replay_modules", "ModReplayer")
ALL = {"setattr", "seq", "mode", "freeze", "grad", "zero"}


def run(ctx):
    if ctx.replay:
        return HC.replay_file(ctx, ctx.replay, KINDS, "Modules", RP, set_consts=("Names", "Acts"))
    rep = core.Report(ctx, "model_checking", assumptions=[
        "module graphs are acyclic (registration that would create a cycle is outside the model)",
        "leaf modules are tagged affine maps so that Sequential's application order is observable"])
    rep.rule = "every history of the Record-mode instance up to MaxHist calls; distinct by the sequence of call kinds"
    q = ctx.quick
    base = dict(NMods=2, NLeaf=1, ParSizes=[2, 3], ParRg=[True, False], Names={"a", "b"}, MaxSeq=1, MaxHist=0, Acts=ALL)
    HC.model_check(rep, "Modules", "Modules_mc", dict(base, NMods=2 if q else 3, MaxSeq=1), INV, PROPS, timeout=10000, depth=5 if q else 6)
    runs = [("hist3", dict(base, MaxHist=3), 80000 if q else 150000),
            ("hist4-narrow", dict(base, NLeaf=0, Names={"a"}, ParSizes=[2], ParRg=[True], MaxSeq=0, MaxHist=4, Acts={"setattr", "mode", "freeze"}), 60000 if q else 150000),
            # gradients held by parameters across freeze / zero_grad / unfreeze
            # attribute names with a leading underscore are attributes like any other
            ("hist3-underscore", dict(base, NMods=2, NLeaf=1, Names={"_a", "b"}, MaxHist=3), 60000 if q else 100000),
            ("hist5-grads", dict(base, NMods=1, NLeaf=0, Names={"a"}, ParSizes=[2], ParRg=[True], MaxSeq=0, MaxHist=5, Acts={"setattr", "grad", "freeze", "zero"}), 60000 if q else 150000),
            # a block that owns a parameter and a child with its own parameter: freeze / unfreeze / zero_grad / train / eval on either node
            ("hist5-block", dict(base, NMods=2, NLeaf=0, Names={"a"}, ParSizes=[2, 3], ParRg=[True, True], MaxSeq=0, MaxHist=5 if q else 6, InitTree="block",
                                 Acts={"grad", "freeze", "zero"}), 60000 if q else 150000)]
    if not q:
        runs.append(("hist4-tree", dict(base, NMods=2, NLeaf=1, Names={"a"}, ParSizes=[2], ParRg=[True], MaxSeq=0, MaxHist=4,
                                        Acts={"setattr", "mode", "zero", "grad"}), 400000))
    for name, consts, limit in runs:
        mx, table, c = HC.emit(rep, "Modules", name, consts, extra_invariants=INV)
        HC.replay_all(ctx, rep, mx, table, c, KINDS, RP, "Modules", label=name + ":", limit=limit)
    mx, table, c = HC.emit(rep, "Modules", "sim", dict(base, NMods=3, NLeaf=2, ParSizes=[2, 3, 1], ParRg=[True, False, True], MaxSeq=2, MaxHist=12),
                           simulate="num=%d" % (60 if q else 5000), depth=40, seed=ctx.seed + 7, workers=1)
    HC.replay_all(ctx, rep, mx, table, c, KINDS, RP, "Modules", label="sim:")
    rep.exhaustive = False
    return rep.finish()
