"""C01 - backward of every tensor op yields the exact vector-Jacobian product.

spec/TensorAlg.tla gives each operation by its forward definition only (Laurent polynomials in the
operand elements, named real functions, extrema over groups); spec/OpCatalog.tla enumerates every
case (operand shapes x arguments) and derives, mechanically, the VJP for basis / negative-basis /
generic / all-ones upstream gradients.  Every case is replayed in float32 and float64, for every
non-empty subset of operands requiring grad, on a fresh forward pass per upstream gradient."""
from ..vlib import core
from .. import cat_common as CC

KINDS = {"second_backward", "grad_value", "backward_error"}


def run(ctx):
    if ctx.replay:
        return CC.replay_file(ctx, ctx.replay, KINDS)
    rep = core.Report(ctx, "model_checking", assumptions=[
        "operands are exact-rational patterns (mixed-sign distinct integers, halves for the named real functions, 0/1 for ties); "
        "for polynomial operations the Jacobian at these points is checked entry by entry through basis gradients",
        "named real functions (exp log sqrt x^p b^x): value and derivative interpreted with mpmath from the definition (mp.diff), not model-checked",
        "zero-size tensors are outside the catalogue"])
    rep.rule = ("every case emitted by TLC for the 14 operation families (one TLC state per case and per phase); a case is distinct by "
                "(op, arguments, operand shapes, value pattern); each is replayed x 2 dtypes x every requires-grad subset x every selected upstream gradient")
    cases = CC.tensor_cases(ctx, rep, with_grad=True)
    CC.replay(ctx, rep, cases, KINDS)
    rep.exhaustive = True
    rep.extra["cases"] = len(cases)
    return rep.finish()
