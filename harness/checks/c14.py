"""C14 - fused operations equal the compositions their documentation equates them with.

(1) spec/Identities.tla: each polynomial identity (a-b = a+(-b), a/b = a*b^-1, mean = sum/count,
stack = concat of unsqueezed, flatten = reshape, adjacent movedim = transpose, addmm = a + b@c,
linear = x@W^T + b, conv2d = unfold then matrix product) is a TLC invariant over every enumerated
configuration - between two independently written forward definitions.
(2) differential replay: for every configuration TLC enumerated (and for the cases of the loss /
softmax / pooling families of NNCatalog for the three transcendental pairs and the pooling identity)
BOTH implementation forms are run on the same operands and the same upstream gradient; values and
all operand gradients must agree.  No external oracle is involved."""
import json
from collections import OrderedDict
from fractions import Fraction

import numpy as np

from ..vlib import core, repo, tlc
from .. import cat_common as CC


def pat_a(k, n):
    return np.array([(-(i + 2 * k) if i % 2 == 0 else (i + 2 * k)) for i in range(1, n + 1)], dtype=np.float64)


def mk(sg, shape, k, dtype=np.float64, rg=True, vals=None):
    n = int(np.prod(shape)) if len(shape) else 1
    v = pat_a(k, n) if vals is None else np.asarray(vals, dtype=np.float64)
    return sg.Tensor(v.reshape(tuple(shape)).astype(dtype), requires_grad=rg)


def gen_g(out):
    n = out.data.size
    return np.array([(-(i + 1) if i % 2 == 0 else (i + 1)) for i in range(1, n + 1)], dtype=np.float64).reshape(out.data.shape)


def both_all(sg, build_ops, fused, composed, tol):
    """both(...) for every non-empty subset of operands requiring grad (a mix of tracked and untracked operands)"""
    K = len(build_ops())
    mv = both(sg, build_ops, fused, composed, tol, views=True)
    if mv:
        return "operands that are transposed views of other tensors: " + mv
    if K == 1 or K > 3:
        return both(sg, build_ops, fused, composed, tol)
    for mask in range(1, 2 ** K):
        m = both(sg, build_ops, fused, composed, tol, rg=[bool(mask >> k & 1) for k in range(K)])
        if m:
            return "requires_grad=%s: %s" % ([bool(mask >> k & 1) for k in range(K)], m)
    return None


def bases_src(build_ops, rg):
    T = build_ops()
    for t, r in zip(T, rg):
        t.requires_grad = r
    return T


def both(sg, build_ops, fused, composed, tol, rg=None, gmode="exact", views=False):
    """runs both forms on fresh copies of the same operands; returns message or None"""
    res = []
    for fn in (fused, composed):
        T = build_ops()
        if rg is not None:
            for t, r in zip(T, rg):
                t.requires_grad = r
        bases = T
        if views:
            # the operands are results of other operations: transposed views of leaves holding the reversed-dims array
            bases, T = [], []
            for t in build_ops() if rg is None else [sg.Tensor(t.data.copy(), requires_grad=t.requires_grad) for t in bases_src(build_ops, rg)]:
                if sum(1 for n in t.data.shape if n > 1) >= 2 and t.data.dtype.kind == "f":
                    b = sg.Tensor(np.ascontiguousarray(t.data.T), requires_grad=t.requires_grad)
                    x, n = b, t.data.ndim
                    with repo.quiet():
                        for i in range(n // 2):
                            x = x.transpose(i, n - 1 - i)
                    bases.append((b, True))
                    T.append(x)
                else:
                    bases.append((t, False))
                    T.append(t)
        try:
            with repo.quiet(), np.errstate(all="ignore"):
                out = fn(*T)
        except Exception as e:  # noqa: BLE001
            res.append(("raised", type(e).__name__ + ": " + str(e)[:80], None))
            continue
        res.append(("pending", out, (T, bases)))
    # both forward passes are done before either backward pass (a backward pass reads what ITS forward pass saved,
    # whatever sliding-window / pooling / normalisation calls came in between)
    try:
        # ... including calls of the same operations on OTHER data of the same shapes (a second batch, an evaluation pass)
        other = [sg.Tensor((t.data * -1.5 + 0.25).astype(t.data.dtype)) if t.data.dtype.kind == "f" else sg.Tensor(t.data.copy()) for t in build_ops()]
        with repo.quiet(), np.errstate(all="ignore"), sg.no_grad():
            fused(*other)
            composed(*other)
    except Exception:  # noqa: BLE001 - operands outside the domain after the perturbation: no disturbance then
        pass
    pend, res = res, []
    for item in pend:
        if item[0] == "raised":
            res.append(item)
            continue
        out, (T, bases) = item[1], item[2]
        grads = None
        if out.requires_grad:
            with repo.quiet(), np.errstate(all="ignore"):
                out.backward(sg.Tensor(gen_g(out).astype(out.data.dtype)))
                # a second sweep from another upstream gradient over the same graph: the accumulated gradients must
                # coincide as well (whatever either form saved for its backward pass is still intact)
                out.backward(sg.Tensor((gen_g(out)[::-1].reshape(out.data.shape) if out.data.ndim else gen_g(out) * 3).astype(out.data.dtype)))
            if views:
                grads = [None if b.grad is None else (b.grad.data.T if tr else b.grad.data).astype(np.float64) for b, tr in bases]
            else:
                grads = [None if t.grad is None else t.grad.data.astype(np.float64) for t in T]
        res.append(("ok", out.data.astype(np.float64), grads))
    (s1, o1, g1), (s2, o2, g2) = res
    if s1 == "raised" and s2 == "raised":
        return None
    if s1 != s2:
        return "one form raised (%s) while the other returned" % (o1 if s1 == "raised" else o2)
    if o1.shape != o2.shape:
        return "shapes differ: fused %s, composed %s" % (o1.shape, o2.shape)
    sc = max(1.0, float(np.max(np.abs(o2))) if o2.size else 1.0)
    if not np.allclose(o1, o2, rtol=tol, atol=tol * sc):
        return "values differ: fused %s, composed %s" % (o1.tolist(), o2.tolist())
    if (g1 is None) != (g2 is None):
        return "one form is differentiable, the other is not"
    for k, (a, b) in enumerate(zip(g1 or [], g2 or [])):
        if (a is None) != (b is None):
            return "operand %d: gradient present in one form only" % k
        if a is not None:
            sc = max(1.0, float(np.max(np.abs(b))) if b.size else 1.0)
            if gmode == "mass":
                if a.shape != b.shape or abs(float(a.sum()) - float(b.sum())) > 1e-6 * max(1.0, float(np.abs(b).sum())):
                    return "operand %d: total gradient mass differs (ties in the windows): fused %s (sum %r), composed %s (sum %r)" % (k, a.tolist(), float(a.sum()), b.tolist(), float(b.sum()))
            elif a.shape != b.shape or not np.allclose(a, b, rtol=tol, atol=tol * sc):
                return "operand %d gradients differ: fused %s, composed %s" % (k, a.tolist(), b.tolist())
    return None


def id_case(sg, c):
    """returns (key, build_ops, fused, composed) or None when the configuration is not in the common domain"""
    F = sg.nn.functional
    i = c["id"]
    if i in ("sub", "div"):
        s1, s2 = c["s1"], c["s2"]
        ops = lambda: [mk(sg, s1, 1), mk(sg, s2, 2)]
        if i == "sub":
            return ops, (lambda a, b: a - b), (lambda a, b: a + (-b))
        return ops, (lambda a, b: a / b), (lambda a, b: a * b ** -1)
    if i == "mean":
        s = c["s"]
        d = None if not c["dims"] else c["dims"][0]
        if d is not None and not (-len(s) <= d < len(s)):
            return None
        cnt = int(np.prod(s)) if d is None else s[d]
        return (lambda: [mk(sg, s, 1)]), (lambda x: x.mean(d, c["keep"])), (lambda x: x.sum(d, c["keep"]) / cnt)
    if i == "stack":
        s, k, d = c["s"], c["k"], c["dim"]
        n = len(s) + 1
        if not (-n <= d < n):
            return None
        return (lambda: [mk(sg, s, j + 1) for j in range(k)]), (lambda *T: sg.stack(list(T), d)), \
               (lambda *T: sg.concat([t.unsqueeze(d) for t in T], d))
    if i == "flatten":
        s, a, b = c["s"], c["sd"], c["ed"]
        n = max(len(s), 1)
        if not (-n <= a < n and -n <= b < n):
            return None
        aa, bb = a % n, b % n
        if aa > bb:
            return None
        shp = (1,) if len(s) == 0 else tuple(s[:aa]) + (int(np.prod(s[aa:bb + 1])),) + tuple(s[bb + 1:])
        return (lambda: [mk(sg, s, 1)]), (lambda x: x.flatten(a, b)), (lambda x: x.reshape(shp))
    if i == "movedim":
        s, a, b = c["s"], c["a"], c["b"]
        if a >= len(s) or b >= len(s) or abs(a - b) != 1:
            return None
        return (lambda: [mk(sg, s, 1)]), (lambda x: x.movedim(a, b)), (lambda x: x.transpose(a, b))
    if i == "addmm":
        m, t, n, sa = c["m"], c["t"], c["n"], c["sa"]
        return (lambda: [mk(sg, sa, 1), mk(sg, [m, t], 2), mk(sg, [t, n], 3)]), (lambda a, b, cc: sg.addmm(a, b, cc)), (lambda a, b, cc: a + b @ cc)
    if i == "linear":
        n, ii, o, bias = c["n"], c["i"], c["o"], c["bias"]
        ops = lambda: [mk(sg, [n, ii], 1), mk(sg, [o, ii], 2)] + ([mk(sg, [o], 3)] if bias else [])
        if bias:
            return ops, (lambda x, w, b: F.linear(x, w, b)), (lambda x, w, b: x @ w.transpose(0, 1) + b)
        return ops, (lambda x, w: F.linear(x, w)), (lambda x, w: x @ w.transpose(0, 1))
    if i == "conv2d":
        xs, ws, bias, g = c["xs"], c["ws"], c["bias"], c["g"]
        kw = dict(stride=tuple(g["s"]), padding=tuple(g["p"]), dilation=tuple(g["d"]))
        ops = lambda: [mk(sg, xs, 1), mk(sg, ws, 2)] + ([mk(sg, [ws[0]], 3)] if bias else [])

        def composed(x, w, b=None):
            cols = F.unfold(x, tuple(g["k"]), **kw)                     # (N, C*K, L)
            out = w.reshape((1, ws[0], -1)) @ cols                       # (N, Co, L)
            if b is not None:
                out = out + b.reshape((1, ws[0], 1))
            lh = (xs[2] + 2 * g["p"][0] - g["d"][0] * (g["k"][0] - 1) - 1) // g["s"][0] + 1
            lw = (xs[3] + 2 * g["p"][1] - g["d"][1] * (g["k"][1] - 1) - 1) // g["s"][1] + 1
            return out.reshape((xs[0], ws[0], lh, lw))
        return ops, (lambda x, w, b=None: F.conv2d(x, w, b, **kw)), composed
    raise AssertionError(i)


def nn_pair(sg, case):
    """pairs built on NNCatalog cases: (key suffix, build_ops, fused, composed, tol)"""
    F = sg.nn.functional
    op, a = case["op"], case["a"]
    X = [np.array([float(Fraction(q[0], q[1])) for q in v], dtype=np.float64).reshape(tuple(s)) for v, s in zip(case["X"], case["shapes"])]
    if op == "ce" and a["red"] == "functional":
        lab = np.array(a["labels"], dtype=np.int64)
        return (lambda: [sg.Tensor(X[0].copy(), requires_grad=True)]), (lambda x: F.cross_entropy(x, sg.Tensor(lab))), \
               (lambda x: F.nll_loss(F.log_softmax(x, 1), sg.Tensor(lab))), 1e-7
    if op == "bcelogits" and a["red"] == "functional":
        return (lambda: [sg.Tensor(X[0].copy(), requires_grad=True)]), (lambda x: F.binary_cross_entropy_with_logits(x, sg.Tensor(X[1].copy()))), \
               (lambda x: F.binary_cross_entropy(F.sigmoid(x), sg.Tensor(X[1].copy()))), 1e-6
    if op == "log_softmax":
        d = a["dim"]
        return (lambda: [sg.Tensor(X[0].copy(), requires_grad=True)]), (lambda x: F.log_softmax(x, d)), (lambda x: F.softmax(x, d).log()), 1e-7
    if op in ("maxpool2d", "avgpool2d"):
        g = a["g"]
        kw = dict(stride=tuple(g["s"]), padding=tuple(g["p"]), dilation=tuple(g["d"]))
        xs = case["shapes"][0]
        K = g["k"][0] * g["k"][1]

        def composed(x):
            cols = F.unfold(x, tuple(g["k"]), pad_value=(-np.inf if op == "maxpool2d" else 0), **kw)   # (N, C*K, L)
            L = cols.shape[2]
            w = cols.reshape((xs[0], xs[1], K, L))
            r = w.max(2) if op == "maxpool2d" else w.mean(2)
            return r.reshape(tuple(case["oshape"]))
        fused = (lambda x: F.max_pool2d(x, tuple(g["k"]), **kw)) if op == "maxpool2d" else (lambda x: F.avg_pool2d(x, tuple(g["k"]), **kw))
        # pattern T has ties inside the windows: the two forms may choose different (valid) sub-gradients, so there the
        # values must coincide and the gradients must carry the same total mass (each output's upstream gradient is
        # distributed over its window, never duplicated or dropped)
        return (lambda: [sg.Tensor(X[0].copy(), requires_grad=True)]), fused, composed, 1e-9, ("mass" if case["pat"] != "A" and op == "maxpool2d" else "exact")
    return None


def modules_part(sg, rep):
    nn = sg.nn
    # Neuron = Linear with one output
    for n_in in (1, 2, 3):
        for bias in (True, False):
            rep.case("neuron:%d:%s" % (n_in, bias))
            w = pat_a(1, n_in).reshape(1, n_in)
            b = np.array([2.5])
            neu, lin = nn.Neuron(n_in, bias=bias), nn.Linear(n_in, 1, bias=bias)
            for m in (neu, lin):
                m.weight.data = w.astype(np.float32).copy()
                if bias:
                    m.bias.data = b.astype(np.float32).copy()
            x = pat_a(2, 2 * n_in).reshape(2, n_in).astype(np.float32)
            outs = []
            for m in (neu, lin):
                xt = sg.Tensor(x.copy(), requires_grad=True)
                y = m(xt)
                y.backward(sg.Tensor(gen_g(y).astype(np.float32)))
                outs.append((y.data, xt.grad.data, m.weight.grad.data))
            if not all(np.allclose(p, q, rtol=1e-6) and p.shape == q.shape for p, q in zip(*outs)):
                rep.violation("neuron-vs-linear:bias=%s" % bias, "Neuron(%d) and Linear(%d, 1) differ: %s vs %s" % (n_in, n_in, outs[0][0].tolist(), outs[1][0].tolist()), dict(kind="neuron"))
    # Sequential = function composition (registration order); an empty Sequential composes nothing
    for k in (0, 1, 2, 3, -2, -3):        # negative: the same module instance appears at several positions
        for named in (False, True):
            rep.case("sequential:%d:%s" % (k, named))
            if k >= 0:
                mods = [nn.Linear(2, 2) for _ in range(k)]
            else:
                base = [nn.Linear(2, 2), nn.Tanh()]
                mods = [base[0], base[1], base[0]] if k == -3 else [base[0], base[0]]
                if named:
                    continue
            for j, m in enumerate(mods):
                if hasattr(m, "weight"):
                    m.weight.data = (pat_a(j + 1, 4).reshape(2, 2) / 4).astype(np.float32)
                    m.bias.data = pat_a(j + 2, 2).astype(np.float32)
            seq = nn.Sequential(OrderedDict(("m%d" % (k - j), m) for j, m in enumerate(mods))) if named else nn.Sequential(*mods)
            x = sg.Tensor(pat_a(1, 4).reshape(2, 2).astype(np.float32))
            want = x
            for m in mods:
                want = m(want)
            try:
                got = seq(x)
            except Exception as e:  # noqa: BLE001
                rep.violation("sequential:raised:n=%d" % k, "Sequential of %d modules raised %s: %s" % (k, type(e).__name__, e), dict(kind="sequential", k=k))
                continue
            if got.data.shape != want.data.shape or not np.allclose(got.data, want.data, rtol=1e-6):
                rep.violation("sequential:value:n=%d" % k, "Sequential of %d modules is not their composition" % k, dict(kind="sequential", k=k))


def run(ctx):
    sg = repo.load(ctx.repo)
    q = ctx.quick
    if ctx.replay:
        rp = json.load(open(ctx.replay))["replay"]
        rep = core.Report(ctx, "model_checking")
        if rp.get("kind") in ("neuron", "sequential"):
            modules_part(sg, rep)
        elif "idcase" in rp:
            b, f, c2 = id_case(sg, rp["idcase"])
            m = both_all(sg, b, f, c2, 1e-9)
            if m:
                rep.violation("replay", m)
        else:
            built = nn_pair(sg, rp["case"])
            m = both(sg, built[0], built[1], built[2], built[3], gmode=(built[4] if len(built) > 4 else "exact"))
            if m:
                rep.violation("replay", m)
        for k, (m, r, c) in rep.violations.items():
            print("DIVERGENCE", k, m)
        if rep.violations:
            print("VIOLATION property=%s replay=%s" % (ctx.pid, ctx.replay))
            return 1
        print("replay: no divergence")
        return 0
    rep = core.Report(ctx, "model_checking", assumptions=[
        "both sides are run on exact-rational operand patterns inside the common domain of the identity (moderate logits for the sigmoid/BCE pair and for log / softmax: the composition log(softmax(x)) underflows for widely separated logits where the fused form does not)",
        "pooling identity through unfold needs pad value -inf for max pooling (the library's own pad_value argument)"])
    rep.rule = "every configuration TLC enumerates in Identities.tla (spec-level invariant + differential replay) and every case of the loss/softmax/pool2d families for the transcendental and pooling pairs"
    # (thorough: rank 3 with sizes {1, 2}; rank 3 with size 3 overflows TLC's 32-bit integers in the exact products)
    consts = dict(Family="id", MaxBasis=4, WithGrad=False, Sizes={1, 2, 3} if q else {1, 2}, MaxRank=2 if q else 3,
                  Axis2Set=CC.nn_consts(q)["Axis2Set"], NCSet=CC.nn_consts(q)["NCSet"])
    w, cfg = tlc.make_mc("Identities", consts, invariants=["IdentityHolds", "Emit"])
    res = tlc.run_tlc("Identities", cfg, workers=1, wrapper=w, timeout=6000)
    if res.violation:
        raise core.Machinery("an identity fails on the specification itself: %s\n%s" % (res.violation, res.out[-2000:]))
    tlc.require_clean(res, "Identities")
    rep.tlc(res, "Identities.tla: %d configurations, invariant IdentityHolds" % len(res.cases))
    for c in res.cases:
        built = id_case(sg, c)
        if built is None:
            continue
        rep.case("id:" + json.dumps(c, sort_keys=True))
        rep.traces += 1
        m = both_all(sg, built[0], built[1], built[2], 1e-9)
        if m:
            rep.violation("identity:%s" % c["id"], "%s on %s: %s" % (c["id"], json.dumps(c), m), dict(idcase=c))
    rep.sample(res.cases[len(res.cases) // 2])
    cases = CC.generate(rep, "NNCatalog", ["loss", "softmax", "pool2d"], CC.nn_consts(q), with_grad=False, timeout=6000)
    for case in cases:
        # (the wide-magnitude pattern is outside the common domain: log(softmax(x)) underflows where log_softmax does not)
        if case["pol"] != "MUST" or case["pat"] == "W":
            continue
        built = nn_pair(sg, case)
        if built is None:
            continue
        rep.case("pair:%s|%s|%s" % (case["op"], json.dumps(case["a"], sort_keys=True), case["shapes"]))
        rep.traces += 1
        m = both(sg, built[0], built[1], built[2], built[3], gmode=(built[4] if len(built) > 4 else "exact"))
        if m:
            rep.violation("pair:%s" % case["op"], "%s %s on %s: %s" % (case["op"], case["a"], case["shapes"], m),
                          dict(case={k: v for k, v in case.items() if not k.startswith("_")}))
    modules_part(sg, rep)
    rep.exhaustive = True
    return rep.finish()
