"""C11 - forward and backward never modify operands, targets or the caller's gradient.

Frame conditions of the specifications: OpCatalog.OperandsFrozen (a case's operands are constant),
Autograd.ValuesFrozen / Untouched.  The drivers keep byte-level snapshots of every array in scope
(operands, upstream gradients, every tensor of a replayed behaviour) and compare them after each
call; every catalogue case is applied twice (bit-identical results); clone()/detach() must not share
storage with their source."""
import numpy as np

from ..vlib import core
from .. import cat_common as CC
from .. import ag_common as AG

KINDS = {"operand_mutated", "g_mutated", "repeat", "storage", "outside_grad"}
AGK = {"value": "C11", "g_mutated": "C11", "storage": "C11", "leaf_grad": "C11", "interior_grad": "C11"}


def run(ctx):
    if ctx.replay:
        import json
        rp = json.load(open(ctx.replay))["replay"]
        if rp.get("spec") == "Autograd":
            return AG.replay_file(ctx, ctx.replay, AGK)
        return CC.replay_file(ctx, ctx.replay, KINDS, replayer=CC.NN_REPLAYER if rp.get("spec") == "NNCatalog" else ("replay_catalog", "CatalogReplayer"))
    rep = core.Report(ctx, "model_checking", assumptions=[
        "mutation is observed through tobytes() snapshots of the arrays reachable from the public attributes .data / .grad",
        "operands that are views of one another: covered by the Autograd behaviours (clone/detach/idx of a shared leaf), not by the catalogue"])
    rep.rule = "catalogue cases (forward twice + backward per upstream gradient) and Autograd behaviours; every array in scope snapshotted"
    cases = CC.tensor_cases(ctx, rep, with_grad=True)
    CC.replay(ctx, rep, cases, KINDS)
    # layers / losses: operands, targets, class labels and (in inference mode) running statistics
    ncases = CC.nn_cases(ctx, rep, with_grad=True)
    CC.replay(ctx, rep, ncases, KINDS, replayer=CC.NN_REPLAYER, spec="NNCatalog")
    q = ctx.quick
    L = [dict(vec=True, rg=True), dict(vec=False, rg=True)]
    ops = {"add", "mul", "clone", "idx", "sum", "stack", "sq"}
    mx, table, c = AG.emit(rep, "frames", dict(MaxNodes=4, GAlpha={-2}, Ops=ops, UseVec=True, MaxHist=4 if q else 5, MaxBackward=2,
                                               Acts={"op", "bw", "detach"}, InitLeaves=L))
    AG.replay_all(ctx, rep, mx, table, c, AGK, label="frames:", limit=40000 if q else 400000)
    # tensors on the other side of a no_grad cut are outside the graph being differentiated: a sweep leaves their
    # gradients (None or a value) alone
    mx, table, c = AG.emit(rep, "frames-ctx", dict(MaxNodes=4, GAlpha={-2}, Ops={"mul"}, MaxHist=6 if q else 7, MaxBackward=1, MaxCtx=1,
                                                   Acts={"op", "bw", "ctx"}, InitLeaves=[dict(vec=False, rg=True), dict(vec=False, rg=True)]))
    AG.replay_all(ctx, rep, mx, table, c, AGK, label="frames-ctx:", limit=40000 if q else 400000)
    rep.exhaustive = False
    return rep.finish()
