"""C05 - forward results of tensor ops match the NumPy/PyTorch definition they mirror.

Same case machine as C01 (forward part): result shape and values for every accepted case, and the
acceptance policy - MUST cases must not raise, UNDEF cases must raise, MAY cases may raise but must
not answer with another value."""
from ..vlib import core
from .. import cat_common as CC

KINDS = {"reject", "accept", "forward_shape", "forward_value"}


def run(ctx):
    if ctx.replay:
        import json
        _rp = json.load(open(ctx.replay))["replay"] or {}
        if _rp.get("spec") == "Ctor":
            from ..vlib import repo
            from .. import replay_ctor
            bad = replay_ctor.check(repo.load(ctx.repo), _rp["case"])
            for k, m in bad:
                print("DIVERGENCE", k, m)
            print("VIOLATION property=%s replay=%s" % (ctx.pid, ctx.replay) if bad else "replay: no divergence")
            return 1 if bad else 0
        if _rp.get("spec") == "Iter":
            from .. import hist_common as HC
            return HC.replay_file(ctx, ctx.replay, {"iter"}, "Iter", ("replay_iter", "IterReplayer"))
        return CC.replay_file(ctx, ctx.replay, KINDS)
    rep = core.Report(ctx, "model_checking", assumptions=[
        "operand values are exact-rational patterns; named real functions interpreted with mpmath",
        "policy table (MUST / UNDEF / MAY) is part of the specification (OpCatalog.Policy), derived from the docstrings",
        "zero-size tensors are outside the catalogue"])
    rep.rule = "every case emitted by TLC for the operation families, forward only, both dtypes, operator / function / method forms"
    cases = CC.tensor_cases(ctx, rep, with_grad=False)
    CC.replay(ctx, rep, cases, KINDS)
    # constructors (spec/Ctor.tla): shape-argument forms, dtype, requires_grad, deterministic values
    from ..vlib import tlc, repo
    from .. import replay_ctor
    import json as _json
    w, cfg = tlc.make_mc("Ctor", dict(Sizes={1, 2, 3}, MaxRank=2 if ctx.quick else 3), invariants=["Emit", "ShapesPositive"])
    res = tlc.run_tlc("Ctor", cfg, workers=1, wrapper=w, timeout=3000)
    tlc.require_clean(res, "Ctor")
    rep.tlc(res, "Ctor.tla: %d constructor cases" % len(res.cases))
    sg = repo.load(ctx.repo)
    for o in res.cases:
        rep.case("ctor:" + _json.dumps(o["c"], sort_keys=True))
        for key, msg in replay_ctor.check(sg, o):
            rep.violation(key, msg, dict(spec="Ctor", case=o))
    # iteration protocol: several simultaneous / nested iterations over one tensor (spec/Iter.tla)
    from .. import hist_common as HC
    for n in (1, 2, 3):
        consts = dict(N=n, MaxCursors=2 if ctx.quick else 3, MaxHist=6 if ctx.quick else 7, Record=False)
        HC.model_check(rep, "Iter", "Iter_mc_%d" % n, consts, ["CursorBound"], ["CursorsIndependent"])
        mx, table, c = HC.emit(rep, "Iter", "iter-%d" % n, consts, limit=150000)
        HC.replay_all(ctx, rep, mx, table, c, {"iter"}, ("replay_iter", "IterReplayer"), "Iter", label="iter%d:" % n)
    rep.exhaustive = True
    rep.extra["cases"] = len(cases)
    rep.extra["by_policy"] = {p: sum(1 for c in cases if c["pol"] == p) for p in ("MUST", "UNDEF", "MAY")}
    return rep.finish()
