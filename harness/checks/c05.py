"""C05 - forward results of tensor ops match the NumPy/PyTorch definition they mirror.

Same case machine as C01 (forward part): result shape and values for every accepted case, and the
acceptance policy - MUST cases must not raise, UNDEF cases must raise, MAY cases may raise but must
not answer with another value."""
from ..vlib import core
from .. import cat_common as CC

KINDS = {"reject", "accept", "forward_shape", "forward_value"}


def run(ctx):
    if ctx.replay:
        return CC.replay_file(ctx, ctx.replay, KINDS)
    rep = core.Report(ctx, "model_checking", assumptions=[
        "operand values are exact-rational patterns; named real functions interpreted with mpmath",
        "policy table (MUST / UNDEF / MAY) is part of the specification (OpCatalog.Policy), derived from the docstrings",
        "zero-size tensors are outside the catalogue"])
    rep.rule = "every case emitted by TLC for the operation families, forward only, both dtypes, operator / function / method forms"
    cases = CC.tensor_cases(ctx, rep, with_grad=False)
    CC.replay(ctx, rep, cases, KINDS)
    rep.exhaustive = True
    rep.extra["cases"] = len(cases)
    rep.extra["by_policy"] = {p: sum(1 for c in cases if c["pol"] == p) for p in ("MUST", "UNDEF", "MAY")}
    return rep.finish()
