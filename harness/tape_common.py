"""TLC validation of recorded tapes (TapeTrace.tla)."""
import json
import os

from .vlib import core, tlc


def validate(rep, traces, tag, verbose=False, timeout=3000):
    """returns {tid: (done, max l)} ; traces: list of event lists"""
    sc = tlc.scratch()
    path = os.path.join(sc, "tapes-%s.json" % tag)
    with open(path, "w") as f:
        json.dump(traces, f)
    w, cfg = tlc.make_mc("TapeTrace", dict(Verbose=verbose), invariants=["Progress", "FnIffRg"], spec="TraceSpec")
    res = tlc.run_tlc("TapeTrace", cfg, workers=8, wrapper=w, env={"TRACE_FILE": path}, tag="tape-" + tag, timeout=timeout, heap="8g")
    if res.violation:
        return res, None
    tlc.require_clean(res, "tape validation " + tag)
    if rep is not None:
        rep.tlc(res, "TapeTrace: %d recorded executions (%s), %d events" % (len(traces), tag, sum(len(t) for t in traces)))
    best = {}
    for o in res.cases:
        b = best.setdefault(o["tid"], [False, 0])
        b[0] = b[0] or o["done"]
        b[1] = max(b[1], o["l"])
    return res, best


def diagnose(trace, tag):
    """re-run one rejected trace verbosely: the longest matched prefix and the event it is stuck at"""
    res, best = validate(None, [trace], tag + "-diag", verbose=True)
    if best is None:
        return 0, "invariant %s violated" % res.violation
    l = best.get(1, [False, 1])[1]
    ev = trace[l - 1] if l - 1 < len(trace) else None
    return l - 1, ev


def corrupt(trace, how):
    import copy
    t = copy.deepcopy(trace)
    if how == "drop_fn":
        idx = [i for i, e in enumerate(t) if e["e"] == "bw_fn"]
        if not idx:
            return None
        del t[idx[len(idx) // 2]]
    elif how == "dup_fn":
        idx = [i for i, e in enumerate(t) if e["e"] == "bw_fn"]
        if not idx:
            return None
        t.insert(idx[0] + 1, dict(t[idx[0]]))
    elif how == "flip_rg":
        idx = [i for i, e in enumerate(t) if e["e"] == "new" and e["ch"] and e["rg"]]
        if not idx:
            return None
        t[idx[0]]["rg"] = False
    elif how == "fn_on_nonreq":
        idx = [i for i, e in enumerate(t) if e["e"] == "new" and not e["rg"]]
        if not idx:
            return None
        t.insert(idx[0] + 1, dict(e="fn", id=t[idx[0]]["id"]))
    elif how == "interior_keeps_grad":
        for i, e in enumerate(t):
            if e["e"] == "bw_end" and not e["rm"]:
                begin = max(j for j in range(i) if t[j]["e"] == "bw_begin")
                fns = [x["id"] for x in t[begin:i] if x["e"] == "bw_fn"]
                ret = {x["id"] for x in t[:i] if x["e"] == "retain"}
                cand = [f for f in fns if f != t[begin]["root"] and f not in e["withgrad"] and f not in ret]
                if cand:
                    e["withgrad"] = sorted(e["withgrad"] + [cand[0]])
                    return t
        return None
    elif how == "swap_order":
        # swap two consecutive bw_fn events that are ordered by the graph (consumer before producer)
        idx = [i for i, e in enumerate(t) if e["e"] == "bw_fn"]
        ch = {e["id"]: set(e["ch"]) for e in t if e["e"] == "new"}
        for a, b in zip(idx, idx[1:]):
            if t[b]["id"] in ch.get(t[a]["id"], ()):
                t[a], t[b] = t[b], t[a]
                return t
        return None
    return t


def tapes_part(ctx, rep, n_programs, with_pytest, pytest_files=("tests/test_engine.py", "tests/test_training.py", "tests/test_layers.py")):
    """Records executions of the real library and lets TLC decide whether each is a behaviour of Tape.tla."""
    import subprocess
    import sys
    from .vlib import repo
    from .record import tape_programs as TP
    sg = repo.load(ctx.repo)
    names, traces = [], []
    for i, tr in enumerate(TP.record_programs(sg, n_programs, ctx.seed + 1)):
        names.append("random-program-%d" % i)
        traces.append(tr)
    if with_pytest:
        out = os.path.join(tlc.scratch(), "tapes_pytest.json")
        child = os.path.join(os.path.dirname(os.path.abspath(__file__)), "record", "tape_pytest.py")
        p = subprocess.run([sys.executable, child, ctx.repo, out] + list(pytest_files), capture_output=True, text=True, timeout=3000)
        if p.returncode != 0 or not os.path.exists(out):
            raise core.Machinery("recording the repository's tests failed: " + (p.stdout + p.stderr)[-600:])
        d = json.load(open(out))
        for nm, t in d["traces"].items():
            if t["passed"] and t["events"]:
                names.append("repo-test:" + nm)
                traces.append(t["events"])
    res, best = validate(rep, traces, "real")
    if best is None:
        rep.evaluations += len(traces)
        rep.violation("tape:invariant:" + str(res.violation), "a recorded execution violates %s" % res.violation)
        return
    accepted = []
    for i, (nm, tr) in enumerate(zip(names, traces), start=1):
        rep.case("tape:" + (nm if nm.startswith("repo-test") else "random:%d-events" % len(tr)))
        rep.traces += 1
        if best.get(i, [False])[0]:
            accepted.append(tr)
        else:
            pos, ev = diagnose(tr, "t%d" % i)
            rep.violation("tape-rejected:at=%s" % (ev["e"] if isinstance(ev, dict) else ev),
                          "recorded execution %s is not a behaviour of Tape.tla: matched %d of %d events, stuck at %s" % (nm, pos, len(tr), ev),
                          dict(kind="tape", name=nm, events=tr[:pos + 1]))
    if accepted:
        rep.sample(dict(recorded=names[0], first_events=traces[0][:12]), limit=3)
    # negative controls
    neg, kinds = [], []
    for tr in accepted[:: max(1, len(accepted) // 8)]:
        for how in ("drop_fn", "dup_fn", "flip_rg", "fn_on_nonreq", "interior_keeps_grad", "swap_order"):
            c = corrupt(tr, how)
            if c is not None:
                neg.append(c)
                kinds.append(how)
    if neg:
        res, nb = validate(rep, neg, "neg")
        wrongly = sorted({kinds[t - 1] for t, b in (nb or {}).items() if b[0]})
        rep.extra["tape_negative_controls"] = dict(total=len(neg), kinds=sorted(set(kinds)), accepted_wrongly=wrongly)
        if nb is None or wrongly:
            raise core.Machinery("corrupted tapes were accepted (%s): the trace specification does not bind" % wrongly)
    elif accepted:
        raise core.Machinery("no negative control could be built for the recorded tapes")
