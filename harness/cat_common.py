"""Shared driver for the checks decided with the case machines (OpCatalog / NNCatalog)."""
import json
import sys
import time

import numpy as np

from .vlib import core, repo, tlc

TENSOR_FAMILIES = ["bin", "scalar", "rterm", "matmul", "addmm", "red", "ext", "squeeze", "reshape", "move", "unfold",
                   "concat", "stack", "getitem", "big"]

_G = {}


def generate(report, module, families, consts, with_grad=True, timeout=3000, parallel=16):
    """Run TLC once per family (in parallel, one worker each); returns list of cases."""
    jobs = []
    for fam in families:
        c = dict(consts)
        if isinstance(fam, tuple):
            fam, over = fam
            c.update(over)
        c["Family"] = fam
        c["WithGrad"] = with_grad
        w, cfg = tlc.make_mc(module, c, invariants=["Emit"], properties=["OperandsFrozen"])
        jobs.append(dict(module=module, cfg_text=cfg, workers=1, wrapper=w, timeout=timeout, tag=module + "-" + fam, heap="3g"))
    results = tlc.run_many(jobs, parallel=parallel)
    cases = []
    for fam, res in zip(families, results):
        name = fam[0] if isinstance(fam, tuple) else fam
        tlc.require_clean(res, "%s/%s" % (module, name))
        if not res.cases:
            raise core.Machinery("family %s produced no case (vacuous)" % name)
        report.tlc(res, "%s family %s: %d cases" % (module, name, len(res.cases)))
        seen = set()
        for c in res.cases:
            k = json.dumps([c["op"], c["a"], c["shapes"], c["pat"]], sort_keys=True)
            if k in seen:
                continue
            seen.add(k)
            c["_fam"] = name
            c["_key"] = k
            cases.append(c)
    print("[generate %s] %d cases from %d families" % (module, len(cases), len(families)), file=sys.stderr)
    return cases


def flag_table(report):
    """Tape.tla's rule `ResultRG` (result requires grad iff grad mode is on and some operand requires grad), evaluated
    by TLC into a table for 1..5 operands: {(gm, (rg...)): out}"""
    got = []
    w = ("MC", "---- MODULE MC ----\nEXTENDS Tape, Json\n"
               "MCNext == UNCHANGED tvars0\n"
               "EmitFlags == PrintT(ToJson([flagtable |-> UNION {FlagTable(k) : k \\in 1..5}]))\n====\n")
    res = tlc.run_tlc("Tape", "INIT TapeInit\nNEXT MCNext\nINVARIANT EmitFlags\nCHECK_DEADLOCK FALSE\n", workers=1, wrapper=w, on_case=got.append, tag="flagtable")
    tlc.require_clean(res, "flagtable")
    report.tlc(res, "Tape.FlagTable (requires-grad rule for 1..5 operands)")
    table = {}
    for o in got:
        for e in o["flagtable"]:
            table[(bool(e["gm"]), tuple(bool(b) for b in e["rg"]))] = bool(e["out"])
    if len(table) != 2 * (2 + 4 + 8 + 16 + 32):
        raise core.Machinery("flag table incomplete: %d entries" % len(table))
    return table


def _worker(args):
    lo, hi = args
    sg = repo.load(_G["repo"])
    mod = __import__("harness." + _G["replayer"][0], fromlist=["x"])
    rp = getattr(mod, _G["replayer"][1])(sg)
    for k, v in (_G.get("rattrs") or {}).items():
        setattr(rp, k, v)
    out = []
    for idx in range(lo, hi):
        case = _G["cases"][idx]
        divs = rp.run(case, dtypes=_G["dtypes"], cross_g=_G["cross_g"])
        out.append((idx, divs))
    return out


def replay(ctx, report, cases, kinds, dtypes=(np.float32, np.float64), cross_g=False, procs=16,
           replayer=("replay_catalog", "CatalogReplayer"), spec="OpCatalog", rattrs=None):
    import multiprocessing as mp
    _G.update(repo=ctx.repo, cases=cases, dtypes=dtypes, cross_g=cross_g, replayer=replayer, rattrs=rattrs)
    total = len(cases)
    chunk = max(1, min(200, (total + procs * 4 - 1) // (procs * 4)))
    jobs = [(lo, min(total, lo + chunk)) for lo in range(0, total, chunk)]
    if procs > 1 and len(jobs) > 1:
        with mp.get_context("fork").Pool(min(procs, len(jobs))) as pool:
            results = pool.map(_worker, jobs)
    else:
        results = [_worker(j) for j in jobs]
    nontrivial = 0
    for res in results:
        for idx, divs in res:
            case = cases[idx]
            report.case("%s|%s|%s|%s" % (case["op"], json.dumps(case["a"], sort_keys=True), case["shapes"], case["pat"]))
            report.traces += 1
            if idx % 499 == 7:
                small = {k: v for k, v in case.items() if k in ("op", "a", "shapes", "pat", "pol", "oshape", "out")}
                report.sample(small, limit=5)
            for kind, key, msg in divs:
                if kind in kinds:
                    report.violation(key, msg, {"spec": spec, "case": {k: v for k, v in case.items() if not k.startswith("_")},
                                                "divergence": [kind, key, msg], "rattrs": _jsonable_attrs(rattrs)})
    return total


def _jsonable_attrs(rattrs):
    if not rattrs:
        return None
    out = dict(rattrs)
    if "flagtable" in out:
        out["flagtable"] = [[k[0], list(k[1]), v] for k, v in out["flagtable"].items()]
    return out


def replay_file(ctx, path, kinds, replayer=("replay_catalog", "CatalogReplayer")):
    rp = json.load(open(path))["replay"]
    sg = repo.load(ctx.repo)
    mod = __import__("harness." + replayer[0], fromlist=["x"])
    r = getattr(mod, replayer[1])(sg)
    for k, v in (rp.get("rattrs") or {}).items():
        if k == "flagtable":
            v = {(e[0], tuple(e[1])): e[2] for e in v}
        setattr(r, k, v)
    divs = [d for d in r.run(rp["case"], cross_g=True) if d[0] in kinds]
    for d in divs:
        print("DIVERGENCE", d)
    if divs:
        print("VIOLATION property=%s replay=%s" % (ctx.pid, path))
        return 1
    print("replay: no divergence")
    return 0


def tensor_cases(ctx, report, with_grad=True):
    """The tensor-operation catalogue at the tier's constants."""
    F = TENSOR_FAMILIES
    if ctx.quick:
        cases = generate(report, "OpCatalog", F, dict(Sizes={1, 2}, MaxRank=3, MaxBasis=8, Pats={"A"}), with_grad)
        cases += generate(report, "OpCatalog", ["bin", "matmul", "addmm", "concat", "stack", "red", "ext", "unfold", "getitem"],
                          dict(Sizes={1, 2, 3}, MaxRank=2, MaxBasis=9, Pats={"A", "S"}), with_grad)
    else:
        cases = generate(report, "OpCatalog", F, dict(Sizes={1, 2, 3}, MaxRank=3, MaxBasis=27, Pats={"A", "S"}), with_grad, timeout=20000)
        cases += generate(report, "OpCatalog", ["squeeze", "reshape", "move", "red", "ext"], dict(Sizes={1, 2}, MaxRank=4, MaxBasis=16, Pats={"A"}), with_grad, timeout=20000)
    # de-duplicate across the two grids
    seen, out = set(), []
    for c in cases:
        if c["_key"] not in seen:
            seen.add(c["_key"])
            out.append(c)
    return out


NN_FAMILIES = ["conv1d", "conv2d", "pool1d", "pool2d", "unfold", "fold", "linear", "act", "softmax", "loss", "bn"]


def axis_set(Ls, ks, ss, ps, ds):
    return tlc.Raw("{" + ", ".join("<<%d,%d,%d,%d,%d>>" % (L, k, s, p, d) for L in Ls for k in ks for s in ss for p in ps for d in ds) + "}")


def nn_consts(quick):
    if quick:
        return dict(MaxBasis=6, AxisSet=axis_set((1, 2, 3, 4, 5), (1, 2, 3), (1, 2, 3), (0, 1, 2), (1, 2)),
                    Axis2Set=tlc.Raw("{<<3,2,1,0,1>>, <<4,2,2,1,1>>, <<3,3,1,1,2>>, <<2,1,3,0,1>>, <<4,3,2,2,1>>, <<2,3,1,0,1>>, <<1,3,1,0,1>>, <<5,2,2,0,2>>}"),
                    NCSet=tlc.Raw("{<<1,1,1>>, <<2,2,2>>, <<1,2,1>>}"))
    return dict(MaxBasis=12, AxisSet=axis_set((1, 2, 3, 4, 5, 6), (1, 2, 3), (1, 2, 3), (0, 1, 2), (1, 2)),
                Axis2Set=axis_set((2, 3, 4), (1, 2, 3), (1, 2), (0, 1), (1, 2)) ,
                NCSet=tlc.Raw("{<<1,1,1>>, <<2,2,2>>, <<1,2,1>>, <<2,1,2>>}"))


def nn_cases(ctx, report, with_grad=True, families=None):
    fams = families or NN_FAMILIES
    cases = generate(report, "NNCatalog", fams, nn_consts(ctx.quick), with_grad, timeout=20000)
    return cases


NN_REPLAYER = ("replay_nn", "NNReplayer")
