------------------------------ MODULE NormDrop ------------------------------
(***************************************************************************)
(* Mode-dependent layers over any call history (C13):                        *)
(*   Layer = "bn"   : BatchNorm1d/2d - exact rational running statistics      *)
(*   Layer = "drop" : Dropout - the mask is a nondeterministic choice         *)
(* The normalised value itself is a named real function of exact arguments:   *)
(* the specification says WHICH mean / variance every element is normalised   *)
(* with; the driver evaluates (x - m) / sqrt(v + eps) * gamma + beta.          *)
(* The second half of the module (TraceNext) validates recorded executions    *)
(* of real Dropout layers: the mask is not logged, TLC infers it.              *)
(***************************************************************************)
EXTENDS QArith, FiniteSets, TLC, Json, IOUtils

CONSTANTS
  Layer,
  \* ---- batch norm
  Batches,     \* sequence of [shape, v]: integer batches of shape (N, C), (N, C, L) or (N, C, H, W)
  NC,          \* number of channels
  Momentum,    \* <<>> (None: cumulative moving average) or <<q>>
  Affine, Track,
  Gamma, Beta, \* sequences of rationals (used when Affine)
  StatsSet,    \* set of <<rm, rv>> pairs offered to SetStats ("arbitrary running values")
  \* ---- dropout
  PDrop,       \* drop probability as a rational
  Inputs,      \* sequence of integer input vectors
  GradsIn,     \* sequence of integer upstream gradients (same length as the inputs)
  MaxHist, Record, Acts,
  Eps,         \* the eps option of the layer (a rational): the driver evaluates (x - m) / sqrt(v + Eps) with it
  Nested       \* the layer sits inside two nested containers; train()/eval() may be called on the root or on the layer

VARIABLES training, rm, rv, nbt, out, mask, hist, fwds, bwout,
          ptraining      \* the training flag of the enclosing containers (only moves when Nested)
vars == <<training, rm, rv, nbt, out, mask, hist, fwds, bwout, ptraining>>

RECURSIVE Prod(_)
Prod(s) == IF s = <<>> THEN 1 ELSE s[1] * Prod(Tail(s))

\* channel (1-based) of flat element i of a batch of shape (N, C, spatial...)
Spatial(shape) == Prod(SubSeq(shape, 3, Len(shape)))
Chan(shape, i) == (((i - 1) \div Spatial(shape)) % shape[2]) + 1
ElemsOf(b, c)  == SelectSeq([i \in 1..Len(b.v) |-> i], LAMBDA i : Chan(b.shape, i) = c)
CountOf(b, c)  == Len(ElemsOf(b, c))
MeanOf(b, c)   == LET es == ElemsOf(b, c) IN QDiv(QSumSeq([t \in 1..Len(es) |-> QI(b.v[es[t]])]), QI(Len(es)))
VarOf(b, c)    ==      \* biased variance
  LET es == ElemsOf(b, c)  m == MeanOf(b, c)
  IN QDiv(QSumSeq([t \in 1..Len(es) |-> LET d == QSub(QI(b.v[es[t]]), m) IN QMul(d, d)]), QI(Len(es)))
UnbiasedOf(b, c) == QMul(VarOf(b, c), <<CountOf(b, c), CountOf(b, c) - 1>>)

None == <<>>
Rec(r) == IF Record THEN Append(hist, r) ELSE hist
CanAct == Record => Len(hist) < MaxHist
Obs == [training |-> training, rm |-> rm, rv |-> rv, nbt |-> nbt, out |-> out, bwout |-> bwout]

-----------------------------------------------------------------------------
Init ==
  /\ training = TRUE /\ ptraining = TRUE
  /\ rm = IF Layer = "bn" /\ Track THEN <<[c \in 1..NC |-> Q0]>> ELSE None
  /\ rv = IF Layer = "bn" /\ Track THEN <<[c \in 1..NC |-> Q1]>> ELSE None
  /\ nbt = 0 /\ out = None /\ mask = None /\ hist = <<>>
  /\ fwds = <<>> /\ bwout = None

\* train()/eval() on the layer itself, or (Nested) on the root container: the root's call sets the mode of every
\* reachable submodule whatever the root's own flag was; the layer's call leaves the containers alone
SetMode(tr, on) ==
  /\ "mode" \in Acts /\ CanAct
  /\ on \in (IF Nested THEN {"layer", "root"} ELSE {"layer"})
  /\ training' = tr
  /\ ptraining' = IF on = "root" THEN tr ELSE ptraining
  /\ out' = None /\ bwout' = None
  /\ UNCHANGED <<rm, rv, nbt, mask, fwds>>
  /\ hist' = Rec(IF Nested THEN [a |-> IF tr THEN "train" ELSE "eval", on |-> on] ELSE [a |-> IF tr THEN "train" ELSE "eval"])

\* ---- batch norm ------------------------------------------------------------------
SetStats(st) ==
  /\ Layer = "bn" /\ "stats" \in Acts /\ CanAct /\ Track /\ st \in StatsSet
  /\ rm' = <<st[1]>> /\ rv' = <<st[2]>>
  /\ out' = None /\ bwout' = None
  /\ UNCHANGED <<training, nbt, mask, fwds, ptraining>>
  /\ hist' = Rec([a |-> "setstats", rm |-> st[1], rv |-> st[2]])

BNForward(bi) ==
  /\ Layer = "bn" /\ "fwd" \in Acts /\ CanAct /\ bi \in 1..Len(Batches)
  /\ LET b == Batches[bi]
         useBatch == training \/ ~Track          \* without running statistics batch statistics are always used
         M(c) == IF useBatch THEN MeanOf(b, c) ELSE rm[1][c]
         V(c) == IF useBatch THEN VarOf(b, c) ELSE rv[1][c]
         upd == training /\ Track                  \* running statistics move only in training mode, once per forward
         f == IF Momentum = None THEN <<1, nbt + 1>> ELSE Momentum[1]
     IN /\ (useBatch /\ training => \A c \in 1..NC : CountOf(b, c) >= 2)
        /\ out' = <<[i \in 1..Len(b.v) |->
                      LET c == Chan(b.shape, i) IN
                      [x |-> b.v[i], m |-> M(c), v |-> V(c),
                       ga |-> IF Affine THEN Gamma[c] ELSE Q1, be |-> IF Affine THEN Beta[c] ELSE Q0]]>>
        /\ IF upd
           THEN /\ nbt' = nbt + 1
                /\ rm' = <<[c \in 1..NC |-> QAdd(QMul(QSub(Q1, f), rm[1][c]), QMul(f, MeanOf(b, c)))]>>
                /\ rv' = <<[c \in 1..NC |-> QAdd(QMul(QSub(Q1, f), rv[1][c]), QMul(f, UnbiasedOf(b, c)))]>>
           ELSE UNCHANGED <<nbt, rm, rv>>
        \* the output keeps, for its backward pass, the statistics THIS forward normalised with
        /\ fwds' = Append(fwds, [mode |-> IF useBatch THEN "batch" ELSE "stats", el |-> out'[1], shape |-> b.shape])
  /\ bwout' = None
  /\ UNCHANGED <<training, mask, ptraining>>
  /\ hist' = Rec([a |-> "fwd", b |-> bi])

\* backward through the k-th forward pass of this history (possibly after later forwards / mode switches):
\* its input gradient is the VJP of THAT forward's function; running statistics never move in a backward pass
BNBackward(k) ==
  /\ Layer = "bn" /\ "bnbwd" \in Acts /\ CanAct /\ k \in 1..Len(fwds)
  /\ bwout' = <<[k |-> k] @@ fwds[k]>>
  /\ out' = None
  /\ UNCHANGED <<training, rm, rv, nbt, mask, fwds, ptraining>>
  /\ hist' = Rec([a |-> "bwd", k |-> k])

\* ---- dropout -----------------------------------------------------------------------
Scale == IF PDrop[1] = PDrop[2] THEN Q1 ELSE QInv(QSub(Q1, PDrop))       \* 1 / (1 - p); p = 1: everything is dropped
Masks(n) == [1..n -> {0, 1}]
MaskOK(m) == (PDrop[1] = 0 => \A i \in DOMAIN m : m[i] = 1) /\ (PDrop[1] = PDrop[2] => \A i \in DOMAIN m : m[i] = 0)
Dropped(x, m) == [i \in 1..Len(x) |-> QMul(QI(x[i] * m[i]), Scale)]

DropForward(xi, m) ==
  /\ Layer = "drop" /\ "fwd" \in Acts /\ CanAct /\ xi \in 1..Len(Inputs)
  /\ IF training
     THEN /\ m \in Masks(Len(Inputs[xi])) /\ MaskOK(m)
          /\ mask' = <<[i \in 1..Len(m) |-> QMul(QI(m[i]), Scale)]>>      \* per-element multiplier of this forward pass
          /\ out' = <<Dropped(Inputs[xi], m)>>
     ELSE /\ m = [i \in 1..Len(Inputs[xi]) |-> 1]          \* eval: the identity
          /\ mask' = <<[i \in 1..Len(m) |-> Q1]>>
          /\ out' = <<[i \in 1..Len(Inputs[xi]) |-> QI(Inputs[xi][i])]>>
  /\ fwds' = Append(fwds, mask'[1])                       \* every forward pass keeps ITS multiplier for its own backward pass
  /\ UNCHANGED <<training, rm, rv, nbt, bwout, ptraining>>
  /\ hist' = Rec([a |-> "fwd", x |-> xi, m |-> m])      \* the mask chosen is part of the behaviour (the driver matches it)

\* backward of the k-th forward pass goes through the mask of THAT pass - whatever the mode is now and whatever forward
\* passes (of the same or another shape) came after it
DropBackward(gi, k) ==
  /\ Layer = "drop" /\ "bwd" \in Acts /\ CanAct /\ gi \in 1..Len(GradsIn) /\ k \in 1..Len(fwds)
  /\ k >= Len(fwds) - 1                                   \* the last two passes (bounds the enumeration)
  /\ Len(GradsIn[gi]) = Len(fwds[k])
  /\ out' = <<[i \in 1..Len(GradsIn[gi]) |-> QMul(QI(GradsIn[gi][i]), fwds[k][i])]>>
  /\ mask' = <<fwds[k]>>                                  \* (`mask` = the multiplier `out` went through: DropValues)
  /\ UNCHANGED <<training, rm, rv, nbt, fwds, bwout, ptraining>>
  /\ hist' = Rec([a |-> "bwd", g |-> gi, k |-> k])

Next ==
  \/ \E tr \in BOOLEAN, on \in {"layer", "root"} : SetMode(tr, on)
  \/ \E st \in StatsSet : SetStats(st)
  \/ \E bi \in 1..Len(Batches) : BNForward(bi)
  \/ \E k \in 1..Len(fwds) : BNBackward(k)
  \/ \E xi \in 1..Len(Inputs) : \E m \in Masks(Len(Inputs[xi])) : DropForward(xi, m)
  \/ \E gi \in 1..Len(GradsIn), k \in 1..Len(fwds) : DropBackward(gi, k)

-----------------------------------------------------------------------------
\* eval never changes the running statistics; a training forward moves them exactly once
EvalFreezesStats == [][~training => (rm' = rm /\ rv' = rv /\ nbt' = nbt) \/ (\E st \in StatsSet : rm' = <<st[1]>>)]_vars
CounterStepsByOne == [][nbt' = nbt \/ nbt' = nbt + 1]_vars
\* survivors are scaled by exactly 1/(1-p), dropped elements are exactly zero
DropValues ==
  (Layer = "drop" /\ out # None /\ mask # None /\ Len(out[1]) = Len(mask[1])) =>
     \A i \in 1..Len(out[1]) : mask[1][i] = Q0 => out[1][i] = Q0

Emit == Record => PrintT(ToJson([hist |-> hist, obs |-> Obs]))

=============================================================================
