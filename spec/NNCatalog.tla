------------------------------ MODULE NNCatalog ------------------------------
(***************************************************************************)
(* Case machine for the deep-learning building blocks (C02, C06, C14, C16):  *)
(* convolution, pooling, unfold / fold and the conv_tools routines, linear,  *)
(* activations, softmax / log_softmax along any dim, the losses under every  *)
(* reduction, batch normalisation in every mode.                             *)
(* Bilinear / linear operations are exact polynomial forms (ConvGeom);       *)
(* operations built from exp / log / sqrt are "rgen" forms: the              *)
(* specification fixes WHERE a named real function is applied and TO WHAT    *)
(* (grouping along dim, windows, reduction, which operand is which           *)
(* argument); the driver evaluates the function and its partial derivatives  *)
(* from the textbook definition.                                             *)
(***************************************************************************)
EXTENDS CaseCommon, ConvGeom

CONSTANTS
  AxisSet,     \* set of per-axis geometries <<L, k, s, p, d>> for the 1-d families
  Axis2Set,    \* per-axis geometries combined pairwise for the 2-d families
  NCSet        \* set of <<N, C, Cout>> triples

G1(t) == [k |-> <<t[2]>>, s |-> <<t[3]>>, p |-> <<t[4]>>, d |-> <<t[5]>>]
G2(t, u) == [k |-> <<t[2], u[2]>>, s |-> <<t[3], u[3]>>, p |-> <<t[4], u[4]>>, d |-> <<t[5], u[5]>>]

\* ---- forms of named real functions ------------------------------------------------
Term(c, fn, par, args) == [c |-> c, fn |-> fn, par |-> par, args |-> args]
RForm(shape, el) == [ok |-> TRUE, kind |-> "rgen", shape |-> shape, el |-> el]
F_act(s, fn, par) == RForm(s, [j \in 1..Prod(s) |-> <<Term(Q1, fn, par, <<<<1, j>>>>)>>])

\* softmax / log_softmax along dim: every element is a function of its whole group
F_softmax(s, dim, fn) ==
  LET n == Len(s) IN
  IF n = 0 \/ ~InRange(dim, n) THEN Bad
  ELSE LET a == ND(dim, n) + 1
           Group(j) == LET o == Unravel(j - 1, s) IN [t \in 1..s[a] |-> <<1, Ravel([d \in 1..n |-> IF d = a THEN t - 1 ELSE o[d]], s) + 1>>]
           Pos(j) == Unravel(j - 1, s)[a]
       IN RForm(s, [j \in 1..Prod(s) |-> <<Term(Q1, fn, <<QI(Pos(j))>>, Group(j))>>])

\* losses, per element (reduction is applied by ReduceForm)
F_mse(s1, s2) ==
  IF s1 # s2 THEN Bad
  ELSE PolyForm(s1, [j \in 1..Prod(s1) |-> <<Mono(Q1, <<<<1, j, 2>>>>), Mono(QI(0 - 2), <<<<1, j, 1>>, <<2, j, 1>>>>), Mono(Q1, <<<<2, j, 2>>>>)>>])
F_nll(s, labels) ==
  IF Len(s) # 2 THEN Bad
  ELSE IF Len(labels) # s[1] \/ (\E n \in 1..Len(labels) : labels[n] < 0 \/ labels[n] >= s[2]) THEN Bad
  ELSE PolyForm(<<s[1]>>, [n \in 1..s[1] |-> <<Mono(QI(0 - 1), <<<<1, Ravel(<<n - 1, labels[n]>>, s) + 1, 1>>>>)>>])
F_ce(s, labels) ==
  IF Len(s) # 2 THEN Bad
  ELSE IF Len(labels) # s[1] \/ (\E n \in 1..Len(labels) : labels[n] < 0 \/ labels[n] >= s[2]) THEN Bad
  ELSE RForm(<<s[1]>>, [n \in 1..s[1] |-> <<Term(Q1, "ce", <<QI(labels[n])>>, [t \in 1..s[2] |-> <<1, Ravel(<<n - 1, t - 1>>, s) + 1>>])>>])
F_bce(s1, s2, fn) ==
  IF s1 # s2 THEN Bad
  ELSE RForm(s1, [j \in 1..Prod(s1) |-> <<Term(Q1, fn, <<>>, <<<<1, j>>, <<2, j>>>>)>>])

\* batch normalisation of x (N, C, *): operand 1 = x, 2 = weight, 3 = bias (when affine)
\* par = <<position in the group, eps, mean, var>> ; mode "batch": args = the channel group (+ gamma, beta)
\*                                                   mode "stats": args = the element (+ gamma, beta), mean / var are constants
F_bn(xs, useBatch, affine, rm, rv, eps) ==
  IF Len(xs) < 2 THEN Bad
  ELSE
    LET nch == xs[2]
        sp == Prod(SubSeq(xs, 3, Len(xs)))
        ChanOf(j) == ((j - 1) \div sp) % nch
        Group(c) == SelectSeq([i \in 1..Prod(xs) |-> i], LAMBDA i : ChanOf(i) = c)
        PosIn(seq, v) == CHOOSE p \in 1..Len(seq) : seq[p] = v
        Aff(c) == IF affine THEN <<<<2, c + 1>>, <<3, c + 1>>>> ELSE <<>>
    IN RForm(xs, [j \in 1..Prod(xs) |->
         LET c == ChanOf(j) IN
         IF useBatch
         THEN LET grp == Group(c) IN
              <<Term(Q1, IF affine THEN "bn_batch_affine" ELSE "bn_batch", <<QI(PosIn(grp, j) - 1), eps>>, [t \in 1..Len(grp) |-> <<1, grp[t]>>] \o Aff(c))>>
         ELSE <<Term(Q1, IF affine THEN "bn_stats_affine" ELSE "bn_stats", <<eps, rm[c + 1], rv[c + 1]>>, <<<<1, j>>>> \o Aff(c))>>])

\* ---- case sets ----------------------------------------------------------------------
NoArgN == [x |-> 0]
XS1(t, nc) == <<nc[1], nc[2], t[1]>>
XS2(t, u, nc) == <<nc[1], nc[2], t[1], u[1]>>

Conv1Cases == {C("conv1d", IF b THEN <<XS1(t, nc), <<nc[3], nc[2], t[2]>>, <<nc[3]>>>> ELSE <<XS1(t, nc), <<nc[3], nc[2], t[2]>>>>,
                 [g |-> G1(t), bias |-> b], "B") : t \in AxisSet, nc \in NCSet, b \in BOOLEAN}
Conv2Cases == {C("conv2d", IF b THEN <<XS2(t, u, nc), <<nc[3], nc[2], t[2], u[2]>>, <<nc[3]>>>> ELSE <<XS2(t, u, nc), <<nc[3], nc[2], t[2], u[2]>>>>,
                 [g |-> G2(t, u), bias |-> b], "B") : t \in Axis2Set, u \in Axis2Set, nc \in NCSet, b \in BOOLEAN}
Pool1Cases == {C(op, <<XS1(t, nc)>>, [g |-> G1(t)], pat) : op \in {"maxpool1d", "avgpool1d"}, t \in AxisSet, nc \in NCSet, pat \in {"A", "T"}}
Pool2Cases == {C(op, <<XS2(t, u, nc)>>, [g |-> G2(t, u)], pat) : op \in {"maxpool2d", "avgpool2d"}, t \in Axis2Set, u \in Axis2Set, nc \in NCSet, pat \in {"A", "T"}}
UnfoldCases == {C("nnunfold", <<XS2(t, u, nc)>>, [g |-> G2(t, u), padv |-> pv], "A") : t \in Axis2Set, u \in Axis2Set, nc \in NCSet, pv \in {Q0, QI(7)}}
\* fold: the operand is a column tensor of the right shape for (N, C, H, W); also two wrong shapes
FoldCases ==
  UNION {LET xs == XS2(q[1], q[2], q[3])  g == G2(q[1], q[2])  sp == <<q[1][1], q[2][1]>>
             L == Prod(OutSizes(sp, g))  K == KProd(g)
         IN IF GeomOK(sp, g)
            THEN {C("nnfold", <<<<xs[1], xs[2] * K, L>>>>, [g |-> g, osize |-> sp], "A"),
                  C("nnfold", <<<<xs[1], xs[2] * K, L + 1>>>>, [g |-> g, osize |-> sp], "A")}
            ELSE {C("nnfold", <<<<xs[1], xs[2] * K, 1>>>>, [g |-> g, osize |-> sp], "A")}
         : q \in Axis2Set \X Axis2Set \X NCSet}
\* conv_tools routines (C16): im2col in both layouts with a visible pad value; col2im on both layouts
Im2colCases ==
  {C("im2col", <<XS2(t, u, nc)>>, [g |-> G2(t, u), layout |-> lay, padv |-> pv], "A") :
     t \in Axis2Set, u \in Axis2Set, nc \in NCSet, lay \in {"unfold", "cols"}, pv \in {Q0, QI(7)}}
Col2imCases ==
  UNION {LET xs == XS2(q[1], q[2], q[3])  g == G2(q[1], q[2])  sp == <<q[1][1], q[2][1]>>
             L == Prod(OutSizes(sp, g))  K == KProd(g)
         IN IF GeomOK(sp, g)
            THEN {C("col2im", <<<<xs[1], xs[2] * K, L>>>>, [g |-> g, osize |-> sp, layout |-> "unfold", xs |-> xs], "A"),
                  C("col2im", <<<<xs[2] * K, L * xs[1]>>>>, [g |-> g, osize |-> sp, layout |-> "cols", xs |-> xs], "A")}
            ELSE {}
         : q \in Axis2Set \X Axis2Set \X NCSet}

LinShapes == {<<n, i, o>> : n \in 1..3, i \in 1..3, o \in 1..3}
LinearCases == {C("linear", IF b THEN <<<<q[1], q[2]>>, <<q[3], q[2]>>, <<q[3]>>>> ELSE <<<<q[1], q[2]>>, <<q[3], q[2]>>>>, [bias |-> b], "A") : q \in LinShapes, b \in BOOLEAN}
               \cup {C("linear", <<<<2, 3>>, <<2, 2>>>>, [bias |-> FALSE], "A")}

ActShapes == UNION {[1..q -> {1, 2, 3}] : q \in 0..2} \cup {<<2, 1, 2>>}
ActCases ==
  {C(op, <<s>>, [slope |-> Q0], pat) : op \in {"relu", "selu", "tanh", "sigmoid"}, s \in ActShapes, pat \in {"S", "Z"}}
  \cup {C("leaky_relu", <<s>>, [slope |-> sl], pat) : s \in ActShapes, sl \in {<<1, 100>>, <<1, 4>>, Q0}, pat \in {"S", "Z"}}
SmShapes == UNION {[1..q -> {1, 2, 3}] : q \in 1..3}       \* (softmax of a 0-d tensor is not promised by the docstrings)
SoftmaxCases == {C(op, <<s>>, [dim |-> d], "S") : op \in {"softmax", "log_softmax"}, s \in SmShapes, d \in (0 - 4)..3}
                \* slices whose maxima are far apart (the stabilising shift is per slice)
                \cup {C(op, <<s>>, [dim |-> d], "W") : op \in {"softmax", "log_softmax"}, s \in {<<2, 3>>, <<3, 3>>, <<3, 2, 2>>}, d \in (0 - 2)..2}

LabelVecs(N, Cn) == [1..N -> 0..(Cn - 1)]
Reductions == {"none", "mean", "sum", "functional"}
LossShapes == {<<>>, <<1>>, <<3>>, <<2, 2>>, <<2, 1, 2>>}
LossCases ==
  {C("mse", <<s, s>>, [red |-> r], "A") : s \in LossShapes, r \in Reductions}
  \cup {C("mse", <<<<2, 2>>, <<2>>>>, [red |-> "mean"], "A"), C("mse", <<<<3>>, <<2>>>>, [red |-> "none"], "A")}
  \* prediction and target of different shapes (equal sizes included): rejected, never broadcast; operands untouched
  \cup {C(op, <<q[1], q[2]>>, [red |-> r], IF op = "mse" THEN "A" ELSE "U") : op \in {"mse", "bce", "bcelogits"}, r \in {"mean", "functional"},
           q \in {<<<<3, 1>>, <<3>>>>, <<<<3>>, <<3, 1>>>>, <<<<2, 2>>, <<2>>>>, <<<<2, 2>>, <<4>>>>, <<<<3>>, <<2>>>>}}
  \cup {C("bce", <<s, s>>, [red |-> r], "U") : s \in LossShapes, r \in Reductions}
  \cup {C("bcelogits", <<s, s>>, [red |-> r], "S") : s \in LossShapes, r \in Reductions}
  \cup UNION {{C(op, <<<<q[1], q[2]>>>>, [red |-> r, labels |-> lab], "S") : lab \in LabelVecs(q[1], q[2]), r \in Reductions, op \in {"nll", "ce"}}
              : q \in {<<1, 2>>, <<2, 2>>, <<2, 3>>, <<3, 2>>}}
  \cup {C(op, <<<<2, 2>>>>, [red |-> "mean", labels |-> <<0, 2>>], "S") : op \in {"nll", "ce"}}
  \cup {C("ce", <<<<3, 3>>>>, [red |-> r, labels |-> lab], "W") : lab \in {<<0, 1, 2>>, <<2, 2, 0>>}, r \in {"none", "mean"}}

BnShapes == {<<2, 1>>, <<2, 2>>, <<3, 2>>, <<2, 2, 2>>, <<1, 2, 3>>, <<2, 1, 1, 2>>, <<1, 2, 2, 2>>}
BnCases ==
  {C("batch_norm", IF aff THEN <<s, <<s[2]>>, <<s[2]>>>> ELSE <<s>>, [training |-> tr, affine |-> aff, running |-> run], "A") :
     s \in BnShapes, tr \in BOOLEAN, aff \in BOOLEAN, run \in BOOLEAN}

Cases ==
  CASE Family = "conv1d" -> Conv1Cases [] Family = "conv2d" -> Conv2Cases
    [] Family = "pool1d" -> Pool1Cases [] Family = "pool2d" -> Pool2Cases
    [] Family = "unfold" -> UnfoldCases [] Family = "fold" -> FoldCases
    [] Family = "im2col" -> Im2colCases [] Family = "col2im" -> Col2imCases
    [] Family = "linear" -> LinearCases [] Family = "act" -> ActCases [] Family = "softmax" -> SoftmaxCases
    [] Family = "loss" -> LossCases [] Family = "bn" -> BnCases

BnEps == <<1, 100000>>
BnRM(c) == [i \in 1..c |-> QI(i)]                   \* non-trivial running statistics: mean 1, 2, ...
BnRV(c) == [i \in 1..c |-> <<i + 3, 4>>]            \* variance 1, 5/4, ...

FormOf(c) ==
  LET s == c.shapes  a == c.a IN
  CASE c.op \in {"conv1d", "conv2d"} -> F_conv(s[1], s[2], a.bias, a.g)
    [] c.op \in {"maxpool1d", "maxpool2d"} -> F_maxpool(s[1], a.g)
    [] c.op \in {"avgpool1d", "avgpool2d"} -> F_avgpool(s[1], a.g)
    [] c.op = "nnunfold" -> F_im2col(s[1], a.g, "unfold", a.padv)
    [] c.op = "nnfold" -> F_col2im(s[1], a.osize, a.g, "unfold")
    [] c.op = "im2col" -> F_im2col(s[1], a.g, a.layout, a.padv)
    [] c.op = "col2im" -> F_col2im(s[1], a.osize, a.g, a.layout)
    [] c.op = "linear" -> F_linear(s[1], s[2], a.bias)
    [] c.op \in {"relu", "selu", "tanh", "sigmoid"} -> F_act(s[1], c.op, <<>>)
    [] c.op = "leaky_relu" -> F_act(s[1], c.op, <<a.slope>>)
    [] c.op \in {"softmax", "log_softmax"} -> F_softmax(s[1], a.dim, c.op)
    [] c.op = "mse" -> ReduceForm(F_mse(s[1], s[2]), a.red)
    [] c.op = "nll" -> ReduceForm(F_nll(s[1], a.labels), a.red)
    [] c.op = "ce" -> ReduceForm(F_ce(s[1], a.labels), a.red)
    [] c.op \in {"bce", "bcelogits"} -> ReduceForm(F_bce(s[1], s[2], c.op), a.red)
    [] c.op = "batch_norm" -> F_bn(s[1], a.training \/ ~a.running, a.affine, BnRM(s[1][2]), BnRV(s[1][2]), BnEps)

\* operands that the specification treats as differentiable (targets of asymmetric losses are not)
DiffOps(c) == IF c.op \in {"bce", "bcelogits"} THEN {1} ELSE {k : k \in 1..Len(c.shapes)}
MayOnly(c) == c.op \in {"maxpool1d", "maxpool2d", "avgpool1d", "avgpool2d"} /\ ~PoolPadUsual(c.a.g)
Policy(c, f) == IF ~f.ok THEN "UNDEF" ELSE IF MayOnly(c) THEN "MAY" ELSE "MUST"

Relevant(c) ==
  LET f == FormOf(c) IN
  /\ (f.ok => Prod(f.shape) >= 1) /\ (\A k \in 1..Len(c.shapes) : Prod(c.shapes[k]) >= 1)
  \* a max-pooling window that lies entirely in the padding (possible with dilation) has no defined value: outside the catalogue
  /\ ((f.ok /\ f.kind = "ext") => \A j \in 1..Len(f.grp) : f.grp[j] # <<>>)

\* logits and targets of BCE-with-logits use different value patterns
FillN(c) == IF c.op = "bcelogits" THEN <<Fill("S", c.shapes)[1], Fill("U", c.shapes)[2]>> ELSE Fill(c.pat, c.shapes)

Obs(c) ==
  LET f == FormOf(c) IN
  ObsOf(c, f, Policy(c, f), FillN(c),
        [diffops |-> DiffOps(c)] @@
        (IF c.op = "batch_norm" THEN [rm |-> BnRM(c.shapes[1][2]), rv |-> BnRV(c.shapes[1][2]), eps |-> BnEps] ELSE [x |-> 0]) @@
        (IF c.op \in {"im2col", "nnunfold"} /\ f.ok THEN [cover |-> CoverCount(c.shapes[1], c.a.g)] ELSE [y |-> 0]))

Init == case \in {c \in Cases : Relevant(c)} /\ phase = "applied"
Differentiate == WithGrad /\ phase = "applied" /\ FormOf(case).ok /\ phase' = "diffed" /\ UNCHANGED case
Next == Differentiate

\* design-level facts on the geometry of every enumerated unfold case
GeomFacts == (case.op = "im2col" /\ case.a.layout = "unfold" /\ case.a.padv = Q0) => (Adjoint(case.shapes[1], case.a.g) /\ FoldUnfoldCount(case.shapes[1], case.a.g))

Emit ==
  LET final == IF WithGrad /\ FormOf(case).ok THEN phase = "diffed" ELSE phase = "applied"
  IN final => PrintT(ToJson(Obs(case)))
=============================================================================
