--------------------------------- MODULE Rng ---------------------------------
(***************************************************************************)
(* Reproducibility (C19).  The two global generators (NumPy's and Python's)  *)
(* are modelled together as  Unseeded | [seed, draws since seeding].          *)
(* manual_seed(s) resets the state whatever happened before; every            *)
(* random-consuming call appends its descriptor to `draws` and its output is  *)
(* tagged with the DETERMINISM KEY (seed, draws so far including itself).     *)
(* Requirement: two outputs with the same seeded key are bit-identical - in   *)
(* the same run, in another run, in another process, under any hash seed.     *)
(* Outputs with an unseeded key are unconstrained.                            *)
(***************************************************************************)
EXTENDS Integers, Sequences, FiniteSets, TLC, Json

CONSTANTS Seeds, APIs, MaxHist, PureAPIs

VARIABLES seeded, draws, hist, keys
vars == <<seeded, draws, hist, keys>>

Init == seeded = <<>> /\ draws = <<>> /\ hist = <<>> /\ keys = <<>>

ManualSeed(s) ==
  /\ Len(hist) < MaxHist /\ s \in Seeds
  /\ seeded' = <<s>> /\ draws' = <<>>
  /\ hist' = Append(hist, [a |-> "seed", s |-> s])
  /\ keys' = Append(keys, [seeded |-> FALSE, seed |-> 0, draws |-> <<>>])       \* produces no output

\* APIs that consume no randomness (one_hot_encode on fixed labels, ...): their output is a function of their arguments
\* alone - comparable across ALL runs, seeded or not (key "pure"), and they leave the stream of later draws untouched
Pure(api) == api \in PureAPIs
Draw(api) ==
  /\ Len(hist) < MaxHist /\ api \in APIs
  /\ draws' = IF Pure(api) THEN draws ELSE Append(draws, api)
  /\ UNCHANGED seeded
  /\ hist' = Append(hist, [a |-> "draw", api |-> api])
  /\ keys' = Append(keys, IF Pure(api) THEN [seeded |-> TRUE, seed |-> 0 - 1, draws |-> <<api>>]
                          ELSE IF seeded = <<>> THEN [seeded |-> FALSE, seed |-> 0, draws |-> <<>>]
                          ELSE [seeded |-> TRUE, seed |-> seeded[1], draws |-> draws'])

Next == (\E s \in Seeds : ManualSeed(s)) \/ (\E api \in APIs : Draw(api))

\* the key of an output depends only on the calls since the last manual_seed
KeyForgetsPast ==
  \A i \in 1..Len(keys) : (keys[i].seeded /\ keys[i].seed >= 0) =>
     LET j == CHOOSE j \in 1..i : hist[j].a = "seed" /\ \A m \in (j + 1)..i : hist[m].a # "seed"
     IN keys[i].seed = hist[j].s /\ keys[i].draws = SelectSeq([m \in 1..(i - j) |-> hist[j + m].api], LAMBDA a : a \notin PureAPIs)

Emit == PrintT(ToJson([hist |-> hist, keys |-> keys]))
=============================================================================
