------------------------------ MODULE Identities ------------------------------
(***************************************************************************)
(* C14: fused operations equal the compositions their documentation equates  *)
(* them with.  Each identity is stated between two INDEPENDENTLY written     *)
(* forward definitions of TensorAlg / ConvGeom and checked by TLC on every   *)
(* enumerated configuration: same shape, same values on the pattern          *)
(* operands, same vector-Jacobian products (two-stage chain rule for the     *)
(* composed side).  The configurations are emitted for the differential      *)
(* replay of both implementation forms.                                      *)
(***************************************************************************)
EXTENDS CaseCommon, ConvGeom

CONSTANTS Sizes, MaxRank, Axis2Set, NCSet

Shapes == UNION {[1..q -> Sizes] : q \in 0..MaxRank}
ShapesFrom(lo) == UNION {[1..q -> Sizes] : q \in lo..MaxRank}
Dims(n) == (0 - n)..(n - 1)

Rows(f, X) == [j \in 1..Len(f.el) |-> DPoly(f.el[j], X)]
Vals(f, X) == [j \in 1..Len(f.el) |-> EvalPoly(f.el[j], X)]
\* two polynomial forms over the same operands agree in shape, value and VJP (generic upstream gradient)
Same(f1, f2, X) ==
  /\ f1.ok = f2.ok
  /\ f1.ok => /\ f1.shape = f2.shape
              /\ Vals(f1, X) = Vals(f2, X)
              /\ LET g == GenericG(Len(f1.el)) IN VJPFold(Rows(f1, X), X, g) = VJPFold(Rows(f2, X), X, g)

\* x.mean(dims) = x.sum(dims) / count
MeanAsSum(s, dims, keep) ==
  LET f == F_sum(s, dims, keep) IN
  IF ~f.ok THEN f
  ELSE LET cnt == Prod(s) \div Prod(f.shape) IN [f EXCEPT !.el = [j \in 1..Len(f.el) |-> Scale(<<1, cnt>>, f.el[j])]]
\* stack(list, dim) = concat of the operands unsqueezed at dim
StackAsConcat(shapes, dim) ==
  LET n == Len(shapes[1]) + 1 IN
  IF ~InRange(dim, n) THEN Bad
  ELSE LET a == ND(dim, n) + 1
           Uns(s) == [d \in 1..n |-> IF d = a THEN 1 ELSE IF d < a THEN s[d] ELSE s[d - 1]]
       IN F_concat([k \in 1..Len(shapes) |-> Uns(shapes[k])], ND(dim, n))
\* flatten(start, end) = reshape to the flattened shape
FlattenAsReshape(s, sd, ed) == LET f == F_flatten(s, sd, ed) IN IF ~f.ok THEN f ELSE F_reshape(s, f.shape)

\* conv2d = unfold followed by a matrix product with the flattened kernel (+ bias), evaluated in two stages
ConvTwoStage(xs, ws, hasBias, g, X) ==
  LET U == F_im2col(xs, g, "unfold", Q0)                                   \* (N, C*K, L)
      Y == Vals(U, <<X[1]>>)
      N == xs[1]  Co == ws[1]  CK == U.shape[2]  L == U.shape[3]
      \* out[n, co, l] = SUM_r w[co, r] * y[n, r, l] (+ b[co])
      out == [q \in 1..(N * Co * L) |->
                LET ix == Unravel(q - 1, <<N, Co, L>>)
                    acc == QSumSeq([r \in 1..CK |-> QMul(X[2][ix[2] * CK + r], Y[Ravel(<<ix[1], r - 1, ix[3]>>, U.shape) + 1])])
                IN IF hasBias THEN QAdd(acc, X[3][ix[2] + 1]) ELSE acc]
  IN out

ConvIdentity(xs, ws, hasBias, g) ==
  LET f == F_conv(xs, ws, hasBias, g)
      shapes == IF hasBias THEN <<xs, ws, <<ws[1]>>>> ELSE <<xs, ws>>
      X == Fill("B", shapes)
  IN f.ok => Vals(f, X) = ConvTwoStage(xs, ws, hasBias, g, X)

\* ---- enumeration ------------------------------------------------------------------------------
G2(t, u) == [k |-> <<t[2], u[2]>>, s |-> <<t[3], u[3]>>, p |-> <<t[4], u[4]>>, d |-> <<t[5], u[5]>>]
IdCases ==
  {[id |-> "sub", s1 |-> s1, s2 |-> s2] : s1 \in Shapes, s2 \in Shapes}
  \cup {[id |-> "div", s1 |-> s1, s2 |-> s2] : s1 \in Shapes, s2 \in Shapes}
  \cup {[id |-> "mean", s |-> s, dims |-> dims, keep |-> k] : s \in ShapesFrom(1), dims \in {<<>>} \cup {<<d>> : d \in Dims(MaxRank)}, k \in BOOLEAN}
  \cup {[id |-> "stack", s |-> s, k |-> k, dim |-> d] : s \in Shapes, k \in 1..3, d \in Dims(MaxRank + 1)}
  \cup {[id |-> "flatten", s |-> s, sd |-> a, ed |-> b] : s \in Shapes, a \in Dims(MaxRank), b \in Dims(MaxRank)}
  \cup {[id |-> "movedim", s |-> s, a |-> a, b |-> b] : s \in ShapesFrom(2), a \in 0..(MaxRank - 1), b \in 0..(MaxRank - 1)}
  \cup {[id |-> "addmm", m |-> q[1], t |-> q[2], n |-> q[3], sa |-> sa] : q \in Sizes \X Sizes \X Sizes, sa \in {<<>>, <<1>>}}
  \cup {[id |-> "linear", n |-> q[1], i |-> q[2], o |-> q[3], bias |-> b] : q \in Sizes \X Sizes \X Sizes, b \in BOOLEAN}
  \cup {[id |-> "conv2d", xs |-> <<nc[1], nc[2], t[1], u[1]>>, ws |-> <<nc[3], nc[2], t[2], u[2]>>, bias |-> b, g |-> G2(t, u)] :
          t \in Axis2Set, u \in Axis2Set, nc \in NCSet, b \in BOOLEAN}

Holds(c) ==
  CASE c.id = "sub" -> LET X == Fill("A", <<c.s1, c.s2>>) IN
         \* a - b = a + (-b): the negation of operand 2 composed with add
         Same(F_sub(c.s1, c.s2), EW2(c.s1, c.s2, LAMBDA a, b : Var(1, a) \o Scale(QI(0 - 1), Var(2, b))), X)
    [] c.id = "div" -> LET X == Fill("A", <<c.s1, c.s2>>) IN
         \* a / b = a * b^-1
         Same(F_div(c.s1, c.s2), EW2(c.s1, c.s2, LAMBDA a, b : <<Mono(Q1, <<<<1, a, 1>>, <<2, b, 0 - 1>>>>)>>), X)
    [] c.id = "mean" -> Same(F_mean(c.s, c.dims, c.keep), MeanAsSum(c.s, c.dims, c.keep), Fill("A", <<c.s>>))
    [] c.id = "stack" -> LET shapes == [i \in 1..c.k |-> c.s] IN Same(F_stack(shapes, c.dim), StackAsConcat(shapes, c.dim), Fill("A", shapes))
    [] c.id = "flatten" -> Same(F_flatten(c.s, c.sd, c.ed), FlattenAsReshape(c.s, c.sd, c.ed), Fill("A", <<c.s>>))
    [] c.id = "movedim" -> (c.a < Len(c.s) /\ c.b < Len(c.s) /\ (c.a - c.b = 1 \/ c.b - c.a = 1)) =>
                             Same(F_movedim(c.s, c.a, c.b), F_transpose(c.s, c.a, c.b), Fill("A", <<c.s>>))
    [] c.id = "addmm" -> LET shapes == <<c.sa, <<c.m, c.t>>, <<c.t, c.n>>>> IN
         Same(F_addmm(shapes[1], shapes[2], shapes[3]),
              \* a + (b @ c) written out with the matmul form's index arithmetic
              LET mm == F_matmul(shapes[2], shapes[3]) IN
              PolyForm(mm.shape, [j \in 1..Len(mm.el) |-> Var(1, BSrc(Unravel(j - 1, mm.shape), c.sa)) \o
                                   [t \in 1..Len(mm.el[j]) |-> Mono(Q1, <<<<2, mm.el[j][t].f[1][2], 1>>, <<3, mm.el[j][t].f[2][2], 1>>>>)]]),
              Fill("A", shapes))
    [] c.id = "linear" -> LET shapes == IF c.bias THEN <<<<c.n, c.i>>, <<c.o, c.i>>, <<c.o>>>> ELSE <<<<c.n, c.i>>, <<c.o, c.i>>>>
                              X == Fill("A", shapes)
                              f == F_linear(shapes[1], shapes[2], c.bias)
                              \* x @ W^T + b by the definition of the matrix product
                              direct == [q \in 1..(c.n * c.o) |-> LET ix == Unravel(q - 1, <<c.n, c.o>>) IN
                                           QAdd(QSumSeq([t \in 1..c.i |-> QMul(X[1][ix[1] * c.i + t], X[2][ix[2] * c.i + t])]),
                                                IF c.bias THEN X[3][ix[2] + 1] ELSE Q0)]
                          IN Vals(f, X) = direct
    [] c.id = "conv2d" -> ConvIdentity(c.xs, c.ws, c.bias, c.g)

Init == case \in IdCases /\ phase = "applied"
Next == FALSE /\ UNCHANGED vars
IdentityHolds == Holds(case)
Emit == PrintT(ToJson(case))
=============================================================================
