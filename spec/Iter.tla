-------------------------------- MODULE Iter --------------------------------
(***************************************************************************)
(* Iteration over the first dimension of a tensor (C05): `iter(t)` creates  *)
(* an independent cursor; `next(c)` yields t[0], t[1], ... and then stops,  *)
(* whatever other cursors over the same tensor are doing (simultaneous and  *)
(* nested iterations); `len(t)` is the size of the first dimension and      *)
(* `t[i]` the i-th slice.                                                    *)
(***************************************************************************)
EXTENDS Integers, Sequences, TLC, Json

CONSTANTS N, MaxCursors, MaxHist, Record

VARIABLES cursors, last, hist
vars == <<cursors, last, hist>>

Rec(r) == IF Record THEN Append(hist, r) ELSE hist
CanAct == Record => Len(hist) < MaxHist
Obs == [last |-> last, cursors |-> Len(cursors)]

Init == cursors = <<>> /\ last = [t |-> "none"] /\ hist = <<>>

IterNew ==
  /\ CanAct /\ Len(cursors) < MaxCursors
  /\ cursors' = Append(cursors, 0)
  /\ last' = [t |-> "iter"]
  /\ hist' = Rec([a |-> "iter"])

NextOf(c) ==
  /\ CanAct /\ c \in 1..Len(cursors)
  /\ IF cursors[c] < N
     THEN /\ last' = [t |-> "item", i |-> cursors[c]]          \* the slice t[i]
          /\ cursors' = [cursors EXCEPT ![c] = @ + 1]
     ELSE /\ last' = [t |-> "stop"] /\ UNCHANGED cursors
  /\ hist' = Rec([a |-> "next", c |-> c])

LenCall ==
  /\ CanAct
  /\ last' = [t |-> "len", v |-> N] /\ UNCHANGED cursors
  /\ hist' = Rec([a |-> "len"])

GetItem(i) ==
  /\ CanAct /\ i \in (0 - N)..(N - 1)
  /\ last' = [t |-> "item", i |-> IF i < 0 THEN i + N ELSE i] /\ UNCHANGED cursors
  /\ hist' = Rec([a |-> "getitem", i |-> i])

Next == IterNew \/ LenCall \/ (\E c \in 1..MaxCursors : NextOf(c)) \/ (\E i \in (0 - N)..(N - 1) : GetItem(i))

\* a cursor only ever moves forward by one and is not moved by anybody else's next()
CursorsIndependent == [][\A c \in 1..Len(cursors) : cursors'[c] = cursors[c] \/ cursors'[c] = cursors[c] + 1]_vars
CursorBound == \A c \in 1..Len(cursors) : cursors[c] <= N
Emit == Record => PrintT(ToJson([hist |-> hist, obs |-> Obs]))
=============================================================================
