------------------------------ MODULE Autograd ------------------------------
(***************************************************************************)
(* Abstract machine of synapgrad's tape-based reverse-mode autograd.        *)
(*                                                                          *)
(*   state   : the tape (one record per tensor), the .grad buffer of every  *)
(*             tensor, the two global modes, the context-manager objects,   *)
(*             the sweep in progress, a ghost accumulator.                   *)
(*   actions : the public calls - tensor creation, operators, requires_grad *)
(*             setter, retain_grad, detach, zero_, Module/Optimizer         *)
(*             zero_grad, construct/enter/exit of no_grad / retain_grads,   *)
(*             backward.  backward is three kinds of steps (begin, one step *)
(*             per backward function, end) because the properties speak     *)
(*             about "each recorded operation contributes exactly once".    *)
(*                                                                          *)
(* Values are exact integers; tensors are 0-d ("s") or of shape (2,) ("v"). *)
(* The expected gradient is NOT computed by the sweep: the ghost `acc` is   *)
(* obtained by forward-mode dual numbers (operator Dual) from the recorded  *)
(* program, and invariant Accumulate states that the reverse sweep - in any *)
(* admissible order - leaves exactly that in the leaves (C03 chain rule on  *)
(* any DAG, C04 accumulation over any history).                              *)
(***************************************************************************)
EXTENDS Integers, Sequences, FiniteSets, TLC, Json

CONSTANTS
  MaxNodes,      \* bound on the number of tensors on the tape
  LeafVals,      \* k-th created leaf gets value LeafVals[k] (vector leaves: <<v, v+1>>)
  GAlpha,        \* set of integers offered as upstream gradient entries
  Ops,           \* enabled operators, subset of AllOps
  UseVec,        \* TRUE: shape-(2,) tensors are in play
  MaxBackward,   \* bound on the number of backward calls per behaviour (state counter)
  MaxCtx,        \* bound on the number of context-manager objects constructed
  MaxHist,       \* Record mode: behaviours are emitted when the history has this length
  Acts,          \* enabled action families
  Record,        \* TRUE: carry the history of calls (for emission of behaviours to replay)
  CanonSweep,    \* TRUE: only one (canonical) sweep order is explored - used for emission, where the
                 \*       order is left to the implementation and checked against `edges`
  InitLeaves     \* sequence of [vec, rg] describing leaves that exist in the initial state

AllOps == {"add", "mul", "sub", "neg", "sq", "clone", "sum", "idx", "stack", "unbind", "gather", "vmax"}
\* vmax: the maximum over all elements of a vector with two different entries (no tie: the derivative is the selection)
ArgMax(v) == IF v[1] > v[2] THEN 1 ELSE 2
\* gather: y = x[[i, j]] for the index pair number k (repeated and permuted indices)
GatherIx(k) == << <<1, 1>>, <<2, 2>>, <<2, 1>> >>[k]

VARIABLES
  tape,    \* Seq of node records
  grad,    \* Seq (same length) of gradient markers
  acc,     \* ghost: Seq of Seq(Int): exact sum of true gradient contributions since last reset
  gmode,   \* gradient mode (no_grad turns it off)
  rmode,   \* retain-all mode (retain_grads turns it on)
  ctxs,    \* Seq of [kind, st, saved]: context-manager objects
  stack,   \* Seq of ctx ids currently entered (top = last)
  gstack,  \* ghost: Seq of the mode in force when the corresponding stack entry was entered
  sweep,   \* <<>> or <<[root, g, msg, todo, order]>>
  nbw,     \* number of backward calls begun
  err,     \* outcome of the last call: "" or the exception class
  hist     \* Record mode: the history (sequence of call records)

vars == <<tape, grad, acc, gmode, rmode, ctxs, stack, gstack, sweep, nbw, err, hist>>

-----------------------------------------------------------------------------
(* Gradient markers:  none | zero (None or zeros, both acceptable after a   *)
(* reset) | val v (exactly v) | any (present, value not fixed by the        *)
(* properties) | free (presence not fixed by the properties)                *)
GNone    == [t |-> "none"]
GZero    == [t |-> "zero"]
GVal(v)  == [t |-> "val", v |-> v]
GAny     == [t |-> "any"]
GFree    == [t |-> "free"]

N        == Len(tape)
Nodes    == 1..N
Size(n)  == IF tape[n].vec THEN 2 ELSE 1
Zeros(k) == [e \in 1..k |-> 0]
El(n, e) == IF tape[n].vec THEN tape[n].val[e] ELSE tape[n].val[1]   \* broadcast read
IsSrc(n) == tape[n].rg /\ ~tape[n].fn            \* a leaf that receives gradient
IsLeafPublic(n) == ~tape[n].rg \/ ~tape[n].fn    \* Tensor.is_leaf
Consumers(n) == {m \in Nodes : \E p \in 1..Len(tape[m].ch) : tape[m].ch[p] = n}
NumLeaves == Cardinality({n \in Nodes : tape[n].op = "leaf"})
Abs(x) == IF x < 0 THEN -x ELSE x
Small(seq) == \A i \in 1..Len(seq) : Abs(seq[i]) <= 5000

-----------------------------------------------------------------------------
(* Forward definitions of the operators on plain integers.                  *)
Arity(op) == IF op \in {"add", "mul", "sub", "stack"} THEN 2 ELSE 1

\* is (op, c1, c2, k) a well-shaped application on the current tape?
WellShaped(op, c1, c2, k) ==
  CASE op \in {"add", "mul", "sub"} -> k = 0
    [] op \in {"neg", "sq", "clone", "sum"} -> c2 = c1 /\ k = 0
    [] op = "idx"    -> c2 = c1 /\ tape[c1].vec /\ k \in 1..2
    [] op = "gather" -> c2 = c1 /\ tape[c1].vec /\ k \in 1..3
    [] op = "vmax"   -> c2 = c1 /\ tape[c1].vec /\ k = 0 /\ tape[c1].val[1] # tape[c1].val[2]
    [] op = "unbind" -> c2 = c1 /\ tape[c1].vec /\ k = 0
    [] op = "stack"  -> ~tape[c1].vec /\ ~tape[c2].vec /\ k = 0
    [] OTHER -> FALSE

OutVec(op, c1, c2) ==
  CASE op \in {"add", "mul", "sub"} -> tape[c1].vec \/ tape[c2].vec
    [] op \in {"neg", "sq", "clone"} -> tape[c1].vec
    [] op = "stack" -> TRUE
    [] op = "gather" -> TRUE
    [] OTHER -> FALSE

OutVal(op, c1, c2, k) ==
  LET sz == IF OutVec(op, c1, c2) THEN 2 ELSE 1 IN
  CASE op = "add"   -> [e \in 1..sz |-> El(c1, e) + El(c2, e)]
    [] op = "mul"   -> [e \in 1..sz |-> El(c1, e) * El(c2, e)]
    [] op = "sub"   -> [e \in 1..sz |-> El(c1, e) - El(c2, e)]
    [] op = "neg"   -> [e \in 1..sz |-> 0 - El(c1, e)]
    [] op = "sq"    -> [e \in 1..sz |-> El(c1, e) * El(c1, e)]
    [] op = "clone" -> [e \in 1..sz |-> El(c1, e)]
    [] op = "sum"   -> IF tape[c1].vec THEN <<tape[c1].val[1] + tape[c1].val[2]>> ELSE <<tape[c1].val[1]>>
    [] op = "idx"   -> <<tape[c1].val[k]>>
    [] op = "gather" -> <<tape[c1].val[GatherIx(k)[1]], tape[c1].val[GatherIx(k)[2]]>>
    [] op = "vmax"  -> <<tape[c1].val[ArgMax(tape[c1].val)]>>
    [] op = "stack" -> <<tape[c1].val[1], tape[c2].val[1]>>
    [] op = "unbind" -> <<tape[c1].val[k]>>     \* k-th output

-----------------------------------------------------------------------------
(* Forward mode: generalised dual numbers.  An element is [x, d] with d a    *)
(* function from input variables <<leaf, element>> to integer coefficients. *)
(* Dual(n) evaluates the recorded program of node n; only tracked nodes     *)
(* (fn) are expanded, gradient sources (rg, no fn) are the variables, all   *)
(* other tensors are constants.  This is the oracle for `acc`; it shares    *)
(* nothing with the reverse rules of SweepStep.                              *)
DVars    == {<<l, e>> : l \in Nodes, e \in 1..2}
DZero    == [v \in DVars |-> 0]
DOne(l, e) == [v \in DVars |-> IF v = <<l, e>> THEN 1 ELSE 0]
DAdd(a, b) == [x |-> a.x + b.x, d |-> [v \in DVars |-> a.d[v] + b.d[v]]]
DSub(a, b) == [x |-> a.x - b.x, d |-> [v \in DVars |-> a.d[v] - b.d[v]]]
DMul(a, b) == [x |-> a.x * b.x, d |-> [v \in DVars |-> a.d[v] * b.x + a.x * b.d[v]]]
DNeg(a)    == [x |-> 0 - a.x, d |-> [v \in DVars |-> 0 - a.d[v]]]

RECURSIVE Dual(_)
Dual(n) ==
  LET nd == tape[n] IN
  IF ~nd.fn
  THEN [e \in 1..Size(n) |-> [x |-> nd.val[e], d |-> IF nd.rg THEN DOne(n, e) ELSE DZero]]
  ELSE
    LET c1 == nd.ch[1]
        c2 == IF Len(nd.ch) = 2 THEN nd.ch[2] ELSE nd.ch[1]
        \* an operand that does not require grad is a constant, whatever its own history
        Arg(c) == IF tape[c].rg THEN Dual(c) ELSE [e \in 1..Size(c) |-> [x |-> tape[c].val[e], d |-> DZero]]
        A == Arg(c1)
        B == Arg(c2)
        AE(e) == IF tape[c1].vec THEN A[e] ELSE A[1]
        BE(e) == IF tape[c2].vec THEN B[e] ELSE B[1]
        sz == Size(n)
    IN CASE nd.op = "add"   -> [e \in 1..sz |-> DAdd(AE(e), BE(e))]
         [] nd.op = "mul"   -> [e \in 1..sz |-> DMul(AE(e), BE(e))]
         [] nd.op = "sub"   -> [e \in 1..sz |-> DSub(AE(e), BE(e))]
         [] nd.op = "neg"   -> [e \in 1..sz |-> DNeg(AE(e))]
         [] nd.op = "sq"    -> [e \in 1..sz |-> DMul(AE(e), AE(e))]
         [] nd.op = "clone" -> [e \in 1..sz |-> AE(e)]
         [] nd.op = "sum"   -> IF tape[c1].vec THEN <<DAdd(A[1], A[2])>> ELSE <<A[1]>>
         [] nd.op = "idx"   -> <<A[nd.k]>>
         [] nd.op = "gather" -> <<A[GatherIx(nd.k)[1]], A[GatherIx(nd.k)[2]]>>
         [] nd.op = "vmax" -> <<A[ArgMax(tape[c1].val)]>>
         [] nd.op = "stack" -> <<A[1], B[1]>>
         [] nd.op = "unbind" -> <<A[nd.k]>>

\* true gradient contribution of backward(root, g) to element e of source l
TrueGrad(root, g, l, e) ==
  LET D == Dual(root) IN
  IF Size(root) = 2 THEN g[1] * D[1].d[<<l, e>>] + g[2] * D[2].d[<<l, e>>]
  ELSE g[1] * D[1].d[<<l, e>>]

-----------------------------------------------------------------------------
(* Reverse mode: which tensors a sweep from `root` touches.                  *)
RECURSIVE ReachFn(_)
ReachFn(n) ==     \* tracked nodes (those that own a backward function) reachable from n
  IF ~tape[n].fn THEN {}
  ELSE {n} \cup UNION {ReachFn(tape[n].ch[p]) : p \in 1..Len(tape[n].ch)}

ReachSrc(root) == \* gradient sources reached by the sweep
  IF IsSrc(root) THEN {root}
  ELSE {l \in Nodes : IsSrc(l) /\ \E m \in ReachFn(root) : \E p \in 1..Len(tape[m].ch) : tape[m].ch[p] = l}

\* local vector-Jacobian product of node n for operand position p, given message m
Unb(c, v) == IF tape[c].vec THEN v ELSE IF Len(v) = 2 THEN <<v[1] + v[2]>> ELSE v
LocalVJP(n, p, m) ==
  LET nd == tape[n]
      c  == nd.ch[p]
      o  == IF Len(nd.ch) = 2 THEN nd.ch[3 - p] ELSE c
      sz == Size(n)
  IN CASE nd.op = "add"   -> Unb(c, m)
       [] nd.op = "sub"   -> IF p = 1 THEN Unb(c, m) ELSE Unb(c, [e \in 1..sz |-> 0 - m[e]])
       [] nd.op = "mul"   -> Unb(c, [e \in 1..sz |-> m[e] * El(o, e)])
       [] nd.op = "neg"   -> [e \in 1..sz |-> 0 - m[e]]
       [] nd.op = "sq"    -> [e \in 1..sz |-> 2 * El(c, e) * m[e]]
       [] nd.op = "clone" -> m
       [] nd.op = "sum"   -> IF tape[c].vec THEN <<m[1], m[1]>> ELSE m
       [] nd.op = "idx"   -> [e \in 1..2 |-> IF e = nd.k THEN m[1] ELSE 0]
       \* every position that read element e sends its message back to it: repeated indices ADD
       [] nd.op = "gather" -> [e \in 1..2 |-> (IF GatherIx(nd.k)[1] = e THEN m[1] ELSE 0) + (IF GatherIx(nd.k)[2] = e THEN m[2] ELSE 0)]
       [] nd.op = "vmax" -> [e \in 1..2 |-> IF e = ArgMax(tape[c].val) THEN m[1] ELSE 0]
       [] nd.op = "stack" -> <<m[p]>>
       [] nd.op = "unbind" -> [e \in 1..2 |-> IF e = nd.k THEN m[1] ELSE 0]

VAdd(a, b) == [e \in 1..Len(a) |-> a[e] + b[e]]
GradAsVal(n) == IF grad[n].t = "val" THEN grad[n].v ELSE Zeros(Size(n))   \* none / zero read as 0

-----------------------------------------------------------------------------
(* Observation: what the public API shows (projection used for conformance) *)
ObsOf(tp, gr, gm, rm) ==
  [nodes |-> [n \in 1..Len(tp) |-> [rg |-> tp[n].rg, leaf |-> (~tp[n].rg \/ ~tp[n].fn), fn |-> tp[n].fn,
                                     g |-> gr[n], v |-> tp[n].val, vec |-> tp[n].vec,
                                     \* C17: a tracked result holds its operands (through its backward function);
                                     \* an untracked one holds nothing
                                     hold |-> IF tp[n].fn THEN tp[n].ch ELSE <<>>]],
   gm |-> gm, rm |-> rm]

Rec(r) == IF Record THEN Append(hist, r) ELSE hist

Quiet == sweep = <<>>
CanAct == Quiet /\ (Record => Len(hist) < MaxHist)    \* Record mode: behaviours have at most MaxHist calls

-----------------------------------------------------------------------------
Init ==
  /\ tape = [i \in 1..Len(InitLeaves) |->
               [op |-> "leaf", ch |-> <<>>, k |-> 0, rg |-> InitLeaves[i].rg, fn |-> FALSE, ret |-> FALSE,
                vec |-> InitLeaves[i].vec, dt |-> "f", brm |-> FALSE,
                val |-> IF InitLeaves[i].vec THEN <<LeafVals[i], LeafVals[i] + 1>> ELSE <<LeafVals[i]>>]]
  /\ grad = [i \in 1..Len(InitLeaves) |-> GNone]
  /\ acc = [i \in 1..Len(InitLeaves) |-> Zeros(IF InitLeaves[i].vec THEN 2 ELSE 1)]
  /\ gmode = TRUE /\ rmode = FALSE
  /\ ctxs = <<>> /\ stack = <<>> /\ gstack = <<>>
  /\ sweep = <<>> /\ nbw = 0 /\ err = ""
  /\ hist = <<>>

\* ---- tensor creation -------------------------------------------------------
NewLeaf(vec, rgReq, dt) ==
  /\ "leaf" \in Acts /\ CanAct /\ N < MaxNodes /\ NumLeaves < Len(LeafVals)
  /\ (vec => UseVec)
  /\ (rgReq => gmode)        \* leaves created with requires_grad=True under no_grad: not fixed by the properties
  /\ LET v0 == LeafVals[NumLeaves + 1]
         val == IF vec THEN <<v0, v0 + 1>> ELSE <<v0>>
         bad == rgReq /\ dt = "i"          \* only floating-point tensors can require grad
     IN /\ IF bad
           THEN /\ err' = "RuntimeError" /\ UNCHANGED <<tape, grad, acc>>
           ELSE /\ err' = ""
                /\ tape' = Append(tape, [op |-> "leaf", ch |-> <<>>, k |-> 0, rg |-> rgReq, fn |-> FALSE, ret |-> FALSE,
                                         vec |-> vec, dt |-> dt, brm |-> rmode, val |-> val])
                /\ grad' = Append(grad, GNone)
                /\ acc' = Append(acc, Zeros(IF vec THEN 2 ELSE 1))
        /\ UNCHANGED <<gmode, rmode, ctxs, stack, gstack, sweep, nbw>>
        /\ hist' = Rec([a |-> "leaf", vec |-> vec, rg |-> rgReq, dt |-> dt, val |-> val, err |-> err'])

\* ---- operators -------------------------------------------------------------
MkNode(op, c1, c2, k) ==
  LET chs == IF Arity(op) = 2 THEN <<c1, c2>> ELSE <<c1>>
      rgs == gmode /\ (\E p \in 1..Len(chs) : tape[chs[p]].rg)
  IN [op |-> op, ch |-> chs, k |-> k, rg |-> rgs, fn |-> rgs, ret |-> FALSE,
      vec |-> OutVec(op, c1, c2), dt |-> "f", brm |-> rmode, val |-> OutVal(op, c1, c2, k)]

Apply(op, c1, c2, k) ==
  /\ "op" \in Acts /\ CanAct /\ op \in Ops
  /\ c1 \in Nodes /\ c2 \in Nodes /\ tape[c1].dt = "f" /\ tape[c2].dt = "f"
  /\ WellShaped(op, c1, c2, k)
  /\ (OutVec(op, c1, c2) => UseVec)
  /\ IF op = "unbind"
     THEN /\ N + 2 <= MaxNodes
          /\ tape' = tape \o <<MkNode(op, c1, c2, 1), MkNode(op, c1, c2, 2)>>
          /\ grad' = grad \o <<GNone, GNone>>
          /\ acc' = acc \o <<<<0>>, <<0>>>>
     ELSE /\ N + 1 <= MaxNodes
          /\ Small(OutVal(op, c1, c2, k))
          /\ tape' = Append(tape, MkNode(op, c1, c2, k))
          /\ grad' = Append(grad, GNone)
          /\ acc' = Append(acc, Zeros(IF OutVec(op, c1, c2) THEN 2 ELSE 1))
  /\ err' = ""
  /\ UNCHANGED <<gmode, rmode, ctxs, stack, gstack, sweep, nbw>>
  /\ hist' = Rec([a |-> "op", op |-> op, ch |-> (IF Arity(op) = 2 THEN <<c1, c2>> ELSE <<c1>>), k |-> k, err |-> ""])

\* ---- flags -----------------------------------------------------------------
SetRG(t, b) ==
  /\ "setrg" \in Acts /\ CanAct /\ t \in Nodes
  /\ Consumers(t) = {}       \* flipping the flag of a tensor already used in a recorded graph: not fixed by the properties
  /\ LET bad == (~IsLeafPublic(t)) \/ (b /\ tape[t].dt = "i")
     IN /\ IF bad THEN err' = "RuntimeError" /\ UNCHANGED tape
           ELSE err' = "" /\ tape' = [tape EXCEPT ![t].rg = b]
        /\ UNCHANGED <<grad, acc, gmode, rmode, ctxs, stack, gstack, sweep, nbw>>
        /\ hist' = Rec([a |-> "setrg", t |-> t, b |-> b, err |-> err'])

\* Tensor(t) / nn.Parameter(t) built from an existing leaf t that holds no gradient yet: a NEW leaf with the same value and
\* flags - its own node of the graph with its own gradient, whatever storage the two objects share
CopyLeaf(t) ==
  /\ "copyleaf" \in Acts /\ CanAct /\ N < MaxNodes /\ t \in Nodes
  /\ tape[t].op = "leaf" /\ tape[t].dt = "f" /\ grad[t] = GNone /\ gmode
  /\ tape' = Append(tape, [tape[t] EXCEPT !.brm = rmode, !.ret = FALSE])
  /\ grad' = Append(grad, GNone)
  /\ acc' = Append(acc, Zeros(Size(t)))
  /\ err' = ""
  /\ UNCHANGED <<gmode, rmode, ctxs, stack, gstack, sweep, nbw>>
  /\ hist' = Rec([a |-> "copyleaf", t |-> t, err |-> ""])

RetainGrad(t) ==
  /\ "retain" \in Acts /\ CanAct /\ t \in Nodes
  /\ IF ~tape[t].rg THEN err' = "RuntimeError" /\ UNCHANGED tape
     ELSE err' = "" /\ tape' = [tape EXCEPT ![t].ret = TRUE]
  /\ UNCHANGED <<grad, acc, gmode, rmode, ctxs, stack, gstack, sweep, nbw>>
  /\ hist' = Rec([a |-> "retain", t |-> t, err |-> err'])

Detach(t) ==
  /\ "detach" \in Acts /\ CanAct /\ t \in Nodes /\ N < MaxNodes
  /\ tape' = Append(tape, [op |-> "detached", ch |-> <<>>, k |-> 0, rg |-> FALSE, fn |-> FALSE, ret |-> FALSE,
                           vec |-> tape[t].vec, dt |-> tape[t].dt, brm |-> rmode, val |-> tape[t].val])
  /\ grad' = Append(grad, GNone)
  /\ acc' = Append(acc, Zeros(Size(t)))
  /\ err' = ""
  /\ UNCHANGED <<gmode, rmode, ctxs, stack, gstack, sweep, nbw>>
  /\ hist' = Rec([a |-> "detach", t |-> t, err |-> ""])

\* ---- resets ----------------------------------------------------------------
ZeroT(t) ==       \* Tensor.zero_()
  /\ "zero" \in Acts /\ CanAct /\ t \in Nodes
  /\ grad' = [grad EXCEPT ![t] = GZero]
  /\ acc' = [acc EXCEPT ![t] = Zeros(Size(t))]
  /\ err' = ""
  /\ UNCHANGED <<tape, gmode, rmode, ctxs, stack, gstack, sweep, nbw>>
  /\ hist' = Rec([a |-> "zero", t |-> t, err |-> ""])

\* Module.zero_grad (parameters that require grad) / Optimizer.zero_grad (every parameter given)
ZeroSet(kind) ==
  /\ "zeroset" \in Acts /\ CanAct /\ kind \in {"module", "optim"}
  \* Optimizer.zero_grad: every parameter it was given; Module.zero_grad: every parameter that requires grad or still
  \* holds a gradient (a frozen parameter that never had one does not acquire one)
  /\ LET S == {n \in Nodes : tape[n].op = "leaf" /\ tape[n].dt = "f" /\ (kind = "optim" \/ tape[n].rg \/ grad[n].t # "none")}
     IN /\ S # {}
        /\ grad' = [n \in Nodes |-> IF n \in S THEN GZero ELSE grad[n]]
        /\ acc' = [n \in Nodes |-> IF n \in S THEN Zeros(Size(n)) ELSE acc[n]]
  /\ err' = ""
  /\ UNCHANGED <<tape, gmode, rmode, ctxs, stack, gstack, sweep, nbw>>
  /\ hist' = Rec([a |-> "zeroset", kind |-> kind, err |-> ""])

\* ---- context managers --------------------------------------------------------
CtxBuild(kind) ==
  /\ "ctx" \in Acts /\ CanAct /\ Len(ctxs) < MaxCtx /\ kind \in {"ng", "rt"}
  /\ ctxs' = Append(ctxs, [kind |-> kind, st |-> "built", saved |-> FALSE])
  /\ err' = ""
  /\ UNCHANGED <<tape, grad, acc, gmode, rmode, stack, gstack, sweep, nbw>>
  /\ hist' = Rec([a |-> "ctxbuild", kind |-> kind, err |-> ""])

CtxEnter(c) ==
  /\ "ctx" \in Acts /\ CanAct /\ c \in 1..Len(ctxs) /\ ctxs[c].st \in {"built", "out"}
  /\ LET kind == ctxs[c].kind
         cur  == IF kind = "ng" THEN gmode ELSE rmode
     IN /\ ctxs' = [ctxs EXCEPT ![c].st = "in", ![c].saved = cur]     \* the mode in force at ENTRY is saved
        /\ stack' = Append(stack, c)
        /\ gstack' = Append(gstack, cur)
        /\ IF kind = "ng" THEN gmode' = FALSE /\ rmode' = rmode
                          ELSE rmode' = TRUE /\ gmode' = gmode
  /\ err' = ""
  /\ UNCHANGED <<tape, grad, acc, sweep, nbw>>
  /\ hist' = Rec([a |-> "ctxenter", c |-> c, err |-> ""])

CtxExit(c, exc) ==    \* exc: the with-block is left by an exception
  /\ "ctx" \in Acts /\ CanAct /\ stack # <<>> /\ c = stack[Len(stack)]
  /\ exc \in BOOLEAN
  /\ ctxs' = [ctxs EXCEPT ![c].st = "out"]
  /\ stack' = SubSeq(stack, 1, Len(stack) - 1)
  /\ gstack' = SubSeq(gstack, 1, Len(gstack) - 1)
  /\ IF ctxs[c].kind = "ng" THEN gmode' = ctxs[c].saved /\ rmode' = rmode
                            ELSE rmode' = ctxs[c].saved /\ gmode' = gmode
  /\ err' = ""
  /\ UNCHANGED <<tape, grad, acc, sweep, nbw>>
  /\ hist' = Rec([a |-> "ctxexit", c |-> c, exc |-> exc, err |-> ""])

\* ---- backward ----------------------------------------------------------------
GVecs(n) == IF tape[n].vec THEN {<<a, b>> : a \in GAlpha, b \in GAlpha} ELSE {<<a>> : a \in GAlpha}

\* gsel = <<>>: backward() without argument; otherwise the upstream gradient
BackwardBegin(root, gsel) ==
  /\ "bw" \in Acts /\ CanAct /\ root \in Nodes /\ nbw < MaxBackward
  /\ gsel \in GVecs(root) \cup {<<>>}
  /\ nbw' = nbw + 1
  /\ LET bad == ~tape[root].rg \/ (gsel = <<>> /\ tape[root].vec)
         g   == IF gsel = <<>> THEN <<1>> ELSE gsel
     IN IF bad
        THEN /\ err' = "RuntimeError"
             /\ UNCHANGED <<tape, grad, acc, gmode, rmode, ctxs, stack, gstack, sweep>>
             /\ hist' = Rec([a |-> "bw", root |-> root, g |-> gsel, err |-> "RuntimeError", fns |-> {}, edges |-> {}])
        ELSE /\ err' = ""
             /\ sweep' = <<[root |-> root, g |-> g, gsel |-> gsel,
                            msg |-> [n \in Nodes |-> IF n = root THEN g ELSE Zeros(Size(n))],
                            todo |-> ReachFn(root), order |-> <<>>]>>
             \* ghost: what this call must contribute, by forward mode
             /\ acc' = [l \in Nodes |-> IF IsSrc(l) /\ l \in ReachSrc(root)
                                        THEN [e \in 1..Size(l) |-> acc[l][e] + TrueGrad(root, g, l, e)]
                                        ELSE acc[l]]
             /\ UNCHANGED <<tape, grad, gmode, rmode, ctxs, stack, gstack, hist>>

\* a backward function may run once every reachable consumer of its tensor has run
Ready(n) == \A m \in ReachFn(sweep[1].root) : (n \in {tape[m].ch[p] : p \in 1..Len(tape[m].ch)}) => m \notin sweep[1].todo

\* one backward function runs: node n pushes its message to its operands
SweepStep(n) ==
  /\ sweep # <<>>
  /\ LET sw == sweep[1] IN
     /\ n \in sw.todo
     /\ Ready(n)
     /\ (CanonSweep => \A n2 \in sw.todo : Ready(n2) => n2 <= n)
     /\ LET Push(msg, p) == LET c == tape[n].ch[p] IN
                              IF tape[c].rg THEN [msg EXCEPT ![c] = VAdd(@, LocalVJP(n, p, sw.msg[n]))] ELSE msg
            m1 == Push(sw.msg, 1)
            m2 == IF Len(tape[n].ch) = 2 THEN Push(m1, 2) ELSE m1
        IN sweep' = <<[sw EXCEPT !.msg = m2, !.todo = @ \ {n}, !.order = Append(@, n)]>>
  /\ UNCHANGED <<tape, grad, acc, gmode, rmode, ctxs, stack, gstack, nbw, err, hist>>

BackwardEnd ==
  /\ sweep # <<>> /\ sweep[1].todo = {}
  /\ LET sw == sweep[1]
         R  == ReachFn(sw.root)
         S  == ReachSrc(sw.root)
         NewG(n) ==
           IF n \in S THEN GVal(VAdd(GradAsVal(n), sw.msg[n]))             \* leaves accumulate (root leaf included)
           ELSE IF n = sw.root THEN GAny                                   \* the root's own buffer is not fixed
           ELSE IF n \in R THEN
                  IF tape[n].ret THEN (IF grad[n].t \in {"none", "zero"} THEN GVal(sw.msg[n]) ELSE GAny)
                  ELSE IF rmode /\ tape[n].brm THEN (IF grad[n].t \in {"none", "zero"} THEN GVal(sw.msg[n]) ELSE GAny)
                  ELSE IF ~rmode /\ ~tape[n].brm THEN GNone                \* intermediate results release theirs
                  ELSE GFree                                               \* built and differentiated under different retain modes
           ELSE grad[n]                                                    \* not reachable: untouched
     IN /\ grad' = [n \in Nodes |-> NewG(n)]
        /\ hist' = Rec([a |-> "bw", root |-> sw.root, g |-> sw.gsel, err |-> "", fns |-> R,
                        edges |-> {<<m, c>> \in R \X R : c \in {tape[m].ch[p] : p \in 1..Len(tape[m].ch)}}])
  /\ sweep' = <<>>
  /\ UNCHANGED <<tape, acc, gmode, rmode, ctxs, stack, gstack, nbw, err>>

-----------------------------------------------------------------------------
Next ==
  \/ \E vec \in BOOLEAN, rgq \in BOOLEAN, dt \in {"f", "i"} : NewLeaf(vec, rgq, dt)
  \/ \E op \in Ops, c1 \in Nodes, c2 \in Nodes, k \in 0..3 : Apply(op, c1, c2, k)
  \/ \E t \in Nodes, b \in BOOLEAN : SetRG(t, b)
  \/ \E t \in Nodes : RetainGrad(t) \/ Detach(t) \/ ZeroT(t)
  \/ \E kind \in {"module", "optim"} : ZeroSet(kind)
  \/ \E t \in Nodes : CopyLeaf(t)
  \/ \E kind \in {"ng", "rt"} : CtxBuild(kind)
  \/ \E c \in 1..Len(ctxs) : CtxEnter(c) \/ \E exc \in BOOLEAN : CtxExit(c, exc)
  \/ \E root \in Nodes : \E gsel \in GVecs(root) \cup {<<>>} : BackwardBegin(root, gsel)
  \/ \E n \in Nodes : SweepStep(n)
  \/ BackwardEnd

Spec == Init /\ [][Next]_vars /\ WF_vars(BackwardEnd) /\ WF_vars(\E n \in Nodes : SweepStep(n))

-----------------------------------------------------------------------------
(* Invariants and properties                                                 *)

TypeOK ==
  /\ Len(grad) = N /\ Len(acc) = N
  /\ \A n \in Nodes : Len(tape[n].val) = Size(n) /\ Len(acc[n]) = Size(n)
  /\ \A n \in Nodes : \A p \in 1..Len(tape[n].ch) : tape[n].ch[p] < n      \* the tape is a DAG in creation order

\* C07: a backward function exists only on results that require grad; integer tensors never require grad
FnIffRg   == \A n \in Nodes : tape[n].fn => tape[n].rg
FloatOnly == \A n \in Nodes : tape[n].rg => tape[n].dt = "f"

\* C03 + C04: after every completed call the leaves hold exactly the forward-mode sum
Accumulate ==
  Quiet => \A l \in Nodes : (IsSrc(l) /\ grad[l].t \in {"none", "zero", "val"}) => GradAsVal(l) = acc[l]

\* C03: each recorded operation contributes exactly once per call
SweepOnce ==
  sweep # <<>> =>
    LET sw == sweep[1] IN
      /\ \A i, j \in 1..Len(sw.order) : i # j => sw.order[i] # sw.order[j]
      /\ {sw.order[i] : i \in 1..Len(sw.order)} \cup sw.todo = ReachFn(sw.root)

\* C07: a tensor that does not require grad is never written by a sweep
NoGradOnNonReq ==
  [][ (sweep # <<>> /\ sweep' = <<>>) => \A n \in Nodes : ~tape[n].rg => grad'[n] = grad[n] ]_vars

\* C04: a call changes only buffers of tensors reachable from its root
Untouched ==
  [][ (sweep # <<>> /\ sweep' = <<>>) =>
        \A n \in Nodes : (n \notin ReachFn(sweep[1].root) /\ n \notin ReachSrc(sweep[1].root) /\ n # sweep[1].root)
                          => grad'[n] = grad[n] ]_vars

\* C11: values never change; the tape only grows
ValuesFrozen ==
  [][ \A n \in Nodes : tape'[n].val = tape[n].val /\ tape'[n].ch = tape[n].ch /\ tape'[n].op = tape[n].op ]_vars

\* C07: leaving a context restores the mode in force when it was entered (ghost stack), at any depth
CtxRestore ==
  [][ (Len(stack') < Len(stack)) =>
        LET c == stack[Len(stack)] IN
          IF ctxs[c].kind = "ng" THEN gmode' = gstack[Len(gstack)] ELSE rmode' = gstack[Len(gstack)] ]_vars

\* modes are only changed by context managers
ModesOnlyByCtx ==
  [][ (gmode' # gmode \/ rmode' # rmode) => Len(stack') # Len(stack) ]_vars

\* C17: what a program keeps alive when the user holds only the tensors in R
RECURSIVE LiveFrom(_)
LiveFrom(R) ==
  LET more == R \cup UNION {IF tape[n].fn THEN {tape[n].ch[p] : p \in 1..Len(tape[n].ch)} ELSE {} : n \in R}
  IN IF more = R THEN R ELSE LiveFrom(more)
NoHistory == \A n \in Nodes : ~tape[n].rg => LiveFrom({n}) = {n}

\* C17: the sweep terminates
SweepTerminates == (sweep # <<>>) ~> (sweep = <<>>)

-----------------------------------------------------------------------------
(* Emission of complete behaviours for replay into the implementation.        *)
Emit == (Record /\ Quiet) => PrintT(ToJson([hist |-> hist, obs |-> ObsOf(tape, grad, gmode, rmode)]))

HistBound == Len(hist) <= MaxHist
=============================================================================
