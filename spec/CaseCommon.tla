------------------------------ MODULE CaseCommon ------------------------------
(***************************************************************************)
(* Shared machinery of the case machines OpCatalog / NNCatalog:              *)
(* value patterns, selection of upstream gradients, requires-grad subsets,   *)
(* evaluation of a form on the operand values, mechanical derivation of the  *)
(* vector-Jacobian products, and the JSON observation of a case.             *)
(***************************************************************************)
EXTENDS TensorAlg, Json

CONSTANTS
  Family,      \* which operation family this run enumerates
  MaxBasis,    \* outputs with at most this many elements get every basis gradient
  WithGrad     \* FALSE: forward only

VARIABLES case, phase
vars == <<case, phase>>

\* value patterns (k = operand number, i = flat position); all exact rationals
PatA(k, i) == LET m == i + 2 * k IN IF i % 2 = 0 THEN QI(0 - m) ELSE QI(m)           \* mixed sign, distinct, never 0
PatB(k, i) == LET v == ((7 * i + 3 * k) % 11) - 5 IN QI(IF v = 0 THEN 6 ELSE v)      \* mixed sign, repeats
PatS(k, i) == <<((3 * i + k) % 9) - 4, 2>>                                          \* small halves in [-2, 2]
PatP(k, i) == QN(((3 * i + k) % 7) + 1, 2)                                          \* positive halves in [1/2, 7/2]
PatT(k, i) == QI((i + k) % 2)                                                       \* ties
PatU(k, i) == QN(((i + k) % 4) + 1, 6)                                              \* probabilities in (0, 1): 1/6 .. 4/6
PatZ(k, i) == QI(((2 * i + k) % 5) - 2)                                             \* small integers around 0 (kinks of relu)
PatD(k, i) == LET m == IF (i + k) % 3 = 0 THEN 1 ELSE IF (i + k) % 3 = 1 THEN 2 ELSE 4 IN QI(IF i % 2 = 0 THEN 0 - m ELSE m)   \* divisors: few distinct denominators
PatW(k, i) == QI(((3 * i + k) % 5) - 2 + 130 * ((i + (i \div 3)) % 3))                 \* widely separated magnitudes (levels 0, 130, 260)
PatVal(pat, k, i) ==
  CASE pat = "A" -> PatA(k, i) [] pat = "B" -> PatB(k, i) [] pat = "S" -> PatS(k, i)
    [] pat = "P" -> PatP(k, i) [] pat = "T" -> PatT(k, i) [] pat = "U" -> PatU(k, i) [] pat = "Z" -> PatZ(k, i) [] pat = "D" -> PatD(k, i) [] pat = "W" -> PatW(k, i)
Fill(pat, shapes) == [k \in 1..Len(shapes) |-> [i \in 1..Prod(shapes[k]) |-> PatVal(pat, k, i)]]


C(op, shapes, a, pat) == [op |-> op, shapes |-> shapes, a |-> a, pat |-> pat]
NoArg == [x |-> 0]


\* upstream gradients (integers)
Basis(n, j)  == [i \in 1..n |-> IF i = j THEN Q1 ELSE Q0]
GenericG(n)  == [i \in 1..n |-> QI(IF i % 2 = 0 THEN 0 - (i + 1) ELSE i + 1)]
GSel(n) ==
  LET js == IF n <= MaxBasis THEN 1..n ELSE {1, n, (n + 1) \div 2, (n \div 3) + 1}
  IN {Basis(n, j) : j \in js} \cup {[i \in 1..n |-> IF i = 1 THEN QI(0 - 1) ELSE Q0], GenericG(n), [i \in 1..n |-> Q1]}

\* non-empty subsets of operands that require grad, as sequences of booleans
RgSets(K) == {r \in [1..K -> BOOLEAN] : \E k \in 1..K : r[k]}

\* extremum over a group
ExtVal(X, grp, isMax) ==
  LET vals == [t \in 1..Len(grp) |-> X[grp[t]]]
      best == CHOOSE t \in 1..Len(vals) : \A u \in 1..Len(vals) : IF isMax THEN ~QLess(vals[t], vals[u]) ELSE ~QLess(vals[u], vals[t])
  IN vals[best]
Ties(X, grp, isMax) == LET v == ExtVal(X, grp, isMax) IN SelectSeq(grp, LAMBDA i : X[i] = v)


\* direct accumulation of g[j] * d el[j] / d x[k][i] (rows[j] = DPoly(el[j], X)); rows with g[j] = 0 are skipped
RECURSIVE AccEntries(_, _, _)
AccEntries(G, ents, gj) ==
  IF ents = <<>> THEN G
  ELSE LET e == ents[1] IN AccEntries([G EXCEPT ![e[1]][e[2]] = QAdd(@, QMul(gj, e[3]))], Tail(ents), gj)
RECURSIVE AccRows(_, _, _, _)
AccRows(G, rows, g, j) ==
  IF j > Len(rows) THEN G ELSE AccRows(IF g[j] = Q0 THEN G ELSE AccEntries(G, rows[j], g[j]), rows, g, j + 1)
VJPFold(rows, X, g) == AccRows([k \in 1..Len(X) |-> [i \in 1..Len(X[k]) |-> Q0]], rows, g, 1)

\* reduction applied by the Loss modules to a per-element form
ReduceForm(f, r) ==
  IF ~f.ok \/ r \in {"none", "functional"} THEN f
  ELSE LET n == Len(f.el)
           c == IF r = "mean" THEN <<1, n>> ELSE Q1
       IN [f EXCEPT !.shape = <<>>,
                    !.el = <<Flatten([j \in 1..n |-> [t \in 1..Len(f.el[j]) |-> [f.el[j][t] EXCEPT !.c = QMul(c, @)]]])>>]

\* JSON observation of a case c with form f and policy pol
ObsOf(c, f, pol, X, extra) ==
  LET base == [op |-> c.op, a |-> c.a, shapes |-> c.shapes, pat |-> c.pat, X |-> X, pol |-> pol,
               rgsets |-> RgSets(Len(c.shapes))] @@ extra
      final == WithGrad /\ phase = "diffed"
  IN IF ~f.ok THEN base @@ [kind |-> "none"]
     ELSE IF f.kind = "poly" THEN
       LET out == [j \in 1..Len(f.el) |-> EvalPoly(f.el[j], X)]
           rows == [j \in 1..Len(f.el) |-> DPoly(f.el[j], X)]
           G == IF final THEN GSel(Len(out)) ELSE {}
       IN base @@ [kind |-> "poly", oshape |-> f.shape, out |-> out,
                   gs |-> {[g |-> g, grads |-> VJPFold(rows, X, g)] : g \in G}]
     ELSE IF f.kind = "ext" THEN
       LET out == [j \in 1..Len(f.grp) |-> ExtVal(X[1], f.grp[j], f.mx)]
           ties == [j \in 1..Len(f.grp) |-> Ties(X[1], f.grp[j], f.mx)]
           G == IF final THEN GSel(Len(out)) ELSE {}
           notie == \A j \in 1..Len(ties) : Len(ties[j]) = 1
           \* without ties the derivative is the selection of the arg-extremum (groups may overlap: pooling windows)
           Sel(g) == <<[i \in 1..Len(X[1]) |-> QSumSeq([j \in 1..Len(ties) |-> IF ties[j][1] = i THEN g[j] ELSE Q0])]>>
       IN base @@ [kind |-> "ext", oshape |-> f.shape, out |-> out, ties |-> ties,
                   gs |-> {[g |-> g, grads |-> IF notie THEN Sel(g) ELSE <<>>] : g \in G}]
     ELSE IF f.kind = "rgen" THEN      \* sums of named real functions of operand elements: structure only
       LET G == IF final THEN GSel(Len(f.el)) ELSE {}
       IN base @@ [kind |-> "rgen", oshape |-> f.shape, el |-> f.el, gs |-> {[g |-> g] : g \in G}]
     ELSE
       LET G == IF final THEN GSel(Prod(f.shape)) ELSE {}
       IN base @@ [kind |-> "rterm", oshape |-> f.shape, fn |-> f.fn, par |-> f.par, gs |-> {[g |-> g] : g \in G}]

\* frame condition (C11): operands of a case never change; a case is a pure function of its description
OperandsFrozen == [][case' = case]_vars
=============================================================================
