----------------------------- MODULE Saturation -----------------------------
(***************************************************************************)
(* C09: the stability-critical operations in their saturated regime.          *)
(* On the lattice Lat (gaps are 0 or >= 20; 89 and 104 bracket float32's      *)
(* exp overflow / underflow; 10^3 and 10^4 reach the magnitude bound of the   *)
(* property) the mathematical functions are, up to e^-20 < 2.1e-9 absolute,   *)
(* piecewise rational:                                                        *)
(*   sigmoid = step (1/2 at 0), tanh = sign, selu = scale*x | -scale*alpha,   *)
(*   softmax = 1/m on the m maxima and 0 elsewhere,                            *)
(*   log_softmax_i = x_i - max - ln m,   CE = max + ln m - x_label,            *)
(*   BCE-with-logits = max(x, 0) - x t (+ ln 2 at 0)                            *)
(* and so are their gradients.  An expected number is a record                 *)
(*   [r |-> rational, ln |-> k, u |-> unit]  meaning  r * unit + ln(k)          *)
(* (k = 1: no logarithm; negative k: minus ln |k|).                             *)
(***************************************************************************)
EXTENDS QArith, FiniteSets, TLC, Json

CONSTANTS Lat, MaxRow, Family

VARIABLES case
vars == <<case>>

V(r)        == [r |-> r, ln |-> 1, u |-> "1"]
VL(r, k)    == [r |-> r, ln |-> k, u |-> "1"]
VU(r, unit) == [r |-> r, ln |-> 1, u |-> unit]
Zero == V(Q0)

RECURSIVE MaxOf(_)
MaxOf(s) == IF Len(s) = 1 THEN s[1] ELSE LET m == MaxOf(Tail(s)) IN IF s[1] > m THEN s[1] ELSE m
NMax(s) == Cardinality({i \in 1..Len(s) : s[i] = MaxOf(s)})
Rows == UNION {[1..n -> Lat] : n \in 1..MaxRow}
Targets == {Q0, Q1, <<1, 2>>, <<1, 4>>, <<3, 4>>, <<9, 10>>, <<1, 10>>}      \* hard, and soft / label-smoothed targets

\* ---- elementwise ------------------------------------------------------------------
Sig(x)  == IF x > 0 THEN Q1 ELSE IF x < 0 THEN Q0 ELSE <<1, 2>>
DSig(x) == IF x = 0 THEN <<1, 4>> ELSE Q0
ElemObs(fn, x) ==
  CASE fn = "sigmoid" -> [out |-> V(Sig(x)), dx |-> V(DSig(x))]
    [] fn = "tanh"    -> [out |-> V(QI(IF x > 0 THEN 1 ELSE IF x < 0 THEN 0 - 1 ELSE 0)), dx |-> V(IF x = 0 THEN Q1 ELSE Q0)]
    [] fn = "selu"    -> IF x > 0 THEN [out |-> VU(QI(x), "scale"), dx |-> VU(Q1, "scale")]
                         ELSE IF x < 0 THEN [out |-> VU(QI(0 - 1), "scalealpha"), dx |-> Zero]
                         ELSE [out |-> Zero, dx |-> VU(Q1, "kink")]           \* at 0 any value between scale*alpha and scale

\* ---- rows ---------------------------------------------------------------------------
SoftmaxRow(s) == [i \in 1..Len(s) |-> IF s[i] = MaxOf(s) THEN <<1, NMax(s)>> ELSE Q0]
LogSoftmaxRow(s) == [i \in 1..Len(s) |-> VL(QI(s[i] - MaxOf(s)), 0 - NMax(s))]
\* VJP of softmax for upstream g:  s_i * (g_i - SUM_j g_j s_j)
SoftmaxVJP(s, g) ==
  LET p == SoftmaxRow(s)
      dot == QSumSeq([j \in 1..Len(s) |-> QMul(QI(g[j]), p[j])])
  IN [i \in 1..Len(s) |-> V(QMul(p[i], QSub(QI(g[i]), dot)))]
\* VJP of log_softmax:  g_i - s_i * SUM_j g_j
RECURSIVE SumInts(_)
SumInts(g) == IF g = <<>> THEN 0 ELSE g[1] + SumInts(Tail(g))
LogSoftmaxVJP(s, g) == LET p == SoftmaxRow(s) IN [i \in 1..Len(s) |-> V(QSub(QI(g[i]), QMul(p[i], QI(SumInts(g)))))]
CEObs(s, y) ==
  [out |-> VL(QI(MaxOf(s) - s[y]), NMax(s)),
   dx |-> LET p == SoftmaxRow(s) IN [i \in 1..Len(s) |-> V(QSub(p[i], IF i = y THEN Q1 ELSE Q0))]]
BCEObs(x, t) ==
  [out |-> VL(QSub(QI(IF x > 0 THEN x ELSE 0), QMul(QI(x), t)), IF x = 0 THEN 2 ELSE 1),
   dx |-> V(QSub(Sig(x), t))]
GRow(n) == [i \in 1..n |-> IF i % 2 = 1 THEN i + 1 ELSE 0 - (i + 1)]      \* upstream gradient 2, -3, 4

Cases ==
  CASE Family = "elem" -> {[op |-> fn, x |-> x] : fn \in {"sigmoid", "tanh", "selu"}, x \in Lat}
    [] Family = "softmax" -> {[op |-> op, row |-> s] : op \in {"softmax", "log_softmax"}, s \in Rows}
    [] Family = "ce" -> UNION {{[op |-> "ce", row |-> s, y |-> y] : y \in 1..Len(s)} : s \in {r \in Rows : Len(r) >= 2}}
    [] Family = "bce" -> {[op |-> "bcelogits", x |-> x, t |-> t] : x \in Lat, t \in Targets}

Obs(c) ==
  CASE c.op \in {"sigmoid", "tanh", "selu"} -> [c |-> c] @@ ElemObs(c.op, c.x)
    [] c.op = "softmax" -> [c |-> c, out |-> [i \in 1..Len(c.row) |-> V(SoftmaxRow(c.row)[i])], g |-> GRow(Len(c.row)), dx |-> SoftmaxVJP(c.row, GRow(Len(c.row)))]
    [] c.op = "log_softmax" -> [c |-> c, out |-> LogSoftmaxRow(c.row), g |-> GRow(Len(c.row)), dx |-> LogSoftmaxVJP(c.row, GRow(Len(c.row)))]
    [] c.op = "ce" -> [c |-> c] @@ CEObs(c.row, c.y)
    [] c.op = "bcelogits" -> [c |-> c] @@ BCEObs(c.x, c.t)

Init == case \in Cases
Next == FALSE /\ UNCHANGED vars

\* design-level sanity: saturated softmax rows are probability vectors; CE of the arg-max label is ln m
SoftmaxSumsToOne == (Family = "softmax") => QSumSeq(SoftmaxRow(case.row)) = Q1
CENonNegative == (Family = "ce") => LET o == CEObs(case.row, case.y).out IN o.r[1] >= 0
Emit == PrintT(ToJson(Obs(case)))
=============================================================================
