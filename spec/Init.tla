-------------------------------- MODULE Init --------------------------------
(***************************************************************************)
(* Weight initialisers (C15): the documented distribution parameters as      *)
(* exact rationals (squared bound / squared standard deviation), with fan    *)
(* and gain computed as in PyTorch; frame: the tensor object, its shape,     *)
(* dtype and requires_grad flag are unchanged, the same tensor is returned.  *)
(***************************************************************************)
EXTENDS QArith, FiniteSets, TLC, Json

CONSTANTS Shapes, Gains, Slopes

VARIABLES case, filled
vars == <<case, filled>>

RECURSIVE Prod(_)
Prod(s) == IF s = <<>> THEN 1 ELSE s[1] * Prod(Tail(s))
FanIn(s)  == s[2] * Prod(SubSeq(s, 3, Len(s)))
FanOut(s) == s[1] * Prod(SubSeq(s, 3, Len(s)))

\* squared gain of calculate_gain(nonlinearity, slope)
Gain2(nl, slope) ==
  CASE nl \in {"linear", "conv1d", "conv2d", "sigmoid"} -> Q1
    [] nl = "tanh" -> <<25, 9>>
    [] nl = "relu" -> QI(2)
    [] nl = "leaky_relu" -> QDiv(QI(2), QAdd(Q1, QMul(slope, slope)))
    [] nl = "selu" -> <<9, 16>>

NLs == {"linear", "conv2d", "sigmoid", "tanh", "relu", "leaky_relu", "selu"}
FanShapes == {s \in Shapes : Len(s) >= 2}

Cases ==
  {[f |-> "xavier_uniform_", shape |-> s, gain |-> g] : s \in FanShapes, g \in Gains}
  \cup {[f |-> "xavier_normal_", shape |-> s, gain |-> g] : s \in FanShapes, g \in Gains}
  \cup {[f |-> fn, shape |-> s, mode |-> m, nl |-> nl, slope |-> sl] :
          fn \in {"kaiming_uniform_", "kaiming_normal_"}, s \in FanShapes, m \in {"fan_in", "fan_out"}, nl \in NLs, sl \in Slopes}
  \* plain fillers, with their numeric arguments given as Python floats or as NumPy float64 scalars (either is a number)
  \cup {[f |-> fn, shape |-> s, argform |-> af] : fn \in {"ones_", "zeros_", "uniform_", "normal_", "constant_"}, s \in Shapes, af \in {"py", "np64"}}
  \cup {[f |-> "Linear", shape |-> s] : s \in {t \in FanShapes : Len(t) = 2}}
  \cup {[f |-> "Conv1d", shape |-> s] : s \in {t \in FanShapes : Len(t) = 3}}
  \cup {[f |-> "Conv2d", shape |-> s] : s \in {t \in FanShapes : Len(t) = 4}}

\* expected distribution: kind, squared scale (bound^2 for uniform, std^2 for normal), mean 0
Expect(c) ==
  CASE c.f = "xavier_uniform_" -> [dist |-> "uniform", sq |-> QMul(QMul(c.gain, c.gain), <<6, FanIn(c.shape) + FanOut(c.shape)>>)]
    [] c.f = "xavier_normal_"  -> [dist |-> "normal",  sq |-> QMul(QMul(c.gain, c.gain), <<2, FanIn(c.shape) + FanOut(c.shape)>>)]
    [] c.f = "kaiming_uniform_" -> [dist |-> "uniform", sq |-> QMul(Gain2(c.nl, c.slope), <<3, IF c.mode = "fan_in" THEN FanIn(c.shape) ELSE FanOut(c.shape)>>)]
    [] c.f = "kaiming_normal_"  -> [dist |-> "normal",  sq |-> QMul(Gain2(c.nl, c.slope), <<1, IF c.mode = "fan_in" THEN FanIn(c.shape) ELSE FanOut(c.shape)>>)]
    [] c.f \in {"Linear", "Conv1d", "Conv2d"} -> [dist |-> "uniform", sq |-> <<1, FanIn(c.shape)>>]     \* U(-1/sqrt(fan_in), 1/sqrt(fan_in))
    [] c.f = "uniform_"  -> [dist |-> "uniform", sq |-> <<9, 4>>]         \* called with (-3/2, 3/2)
    [] c.f = "normal_"   -> [dist |-> "normal", sq |-> QI(4)]            \* called with mean 0, std 2
    [] c.f = "ones_"     -> [dist |-> "const", sq |-> Q1]
    [] c.f = "zeros_"    -> [dist |-> "const", sq |-> Q0]
    [] c.f = "constant_" -> [dist |-> "const", sq |-> <<7, 2>>]

Init == case \in Cases /\ filled = FALSE
Fill == ~filled /\ filled' = TRUE /\ UNCHANGED case       \* the call: only the contents change
Next == Fill

\* frame: shape (part of the case) is unchanged by the call; scales are positive and finite
FrameShape == [][case'.shape = case.shape]_vars
ScalePositive == LET e == Expect(case) IN e.dist \in {"uniform", "normal"} => e.sq[1] > 0 /\ e.sq[2] > 0
Emit == filled => PrintT(ToJson([c |-> case, e |-> Expect(case)]))
=============================================================================
