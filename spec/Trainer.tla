------------------------------- MODULE Trainer -------------------------------
(***************************************************************************)
(* The protocol of synapgrad.nn.utils.train.Trainer.fit / test (C20).        *)
(*                                                                           *)
(* One action per observable call of the loop: model.train(), model.eval(),  *)
(* model forward, optimizer.zero_grad(), loss.backward(), optimizer.step(),  *)
(* entering / leaving engine.no_grad(), end of epoch, end of fit.            *)
(* Per batch only the partial order {forward, zero_grad} < backward < step   *)
(* is required.  `pver` is the version of the parameters (may only move in   *)
(* step), `sver` the version of the BatchNorm running statistics (may only   *)
(* move in a training-mode forward).                                         *)
(*                                                                           *)
(* The same actions are reused by the trace specification at the end of the  *)
(* module, which validates executions recorded from the real Trainer.        *)
(***************************************************************************)
EXTENDS Integers, Sequences, FiniteSets, TLC, Json, IOUtils

CONSTANTS Cfgs       \* set of [E, NB, NV, NT] records (NV = 0: no validation loader; NT: batches of the test loader)

VARIABLES cfg, phase, ep, bi, vb, mtrain, gmode, ngdepth, steps, fwd, zeroed, bwdone, pver, sver, hlen,
          amb,      \* the gradient mode of the caller's environment (the caller may run test() inside its own no_grad block)
          saved,    \* the mode found when the loop's no_grad block was entered
          nfit      \* number of earlier fit() calls on this Trainer (bounded: a second fit starts a fresh history)
vars == <<cfg, phase, ep, bi, vb, mtrain, gmode, ngdepth, steps, fwd, zeroed, bwdone, pver, sver, hlen, amb, saved, nfit>>

Init ==
  /\ cfg \in Cfgs
  /\ phase = "idle" /\ ep = 0 /\ bi = 0 /\ vb = 0
  /\ mtrain \in BOOLEAN          \* whatever mode the model was left in
  /\ gmode = TRUE /\ ngdepth = 0 /\ amb = TRUE /\ saved = TRUE /\ nfit = 0
  /\ steps = 0 /\ fwd = FALSE /\ zeroed = FALSE /\ bwdone = FALSE
  /\ pver = 0 /\ sver = 0 /\ hlen = 0

\* the caller enters / leaves a no_grad block of its own between two calls of the Trainer (e.g. to run test())
AmbientToggle ==
  /\ phase \in {"idle", "finished", "tested"} /\ ngdepth = 0
  /\ amb' = ~amb /\ gmode' = ~gmode
  /\ UNCHANGED <<cfg, phase, ep, bi, vb, mtrain, ngdepth, steps, fwd, zeroed, bwdone, pver, sver, hlen, saved, nfit>>

\* fit() starts an epoch: phase idle/epoch-boundary -> train (training needs gradient tracking: fit() inside a
\* caller's no_grad block is outside the specification)
EpochBegin ==
  /\ phase \in {"idle", "between"} /\ ep < cfg.E /\ gmode
  /\ phase' = "train" /\ bi' = 0 /\ vb' = 0
  /\ UNCHANGED <<cfg, ep, mtrain, gmode, ngdepth, steps, fwd, zeroed, bwdone, pver, sver, hlen, amb, saved, nfit>>

ModelTrain ==       \* model.train(): allowed whenever the loop is in its training part and no batch is half-way
  /\ phase = "train" /\ ~bwdone
  /\ mtrain' = TRUE
  /\ UNCHANGED <<cfg, phase, ep, bi, vb, gmode, ngdepth, steps, fwd, zeroed, bwdone, pver, sver, hlen, amb, saved, nfit>>

\* a user callback (on_train_epoch) runs at the start of the epoch and may leave the model in any mode,
\* e.g. after evaluating it; the loop must re-assert training mode before the first batch
CallbackEval ==
  /\ phase = "train" /\ bi = 0 /\ ~fwd /\ ~zeroed /\ ~bwdone
  /\ mtrain' = FALSE
  /\ UNCHANGED <<cfg, phase, ep, bi, vb, gmode, ngdepth, steps, fwd, zeroed, bwdone, pver, sver, hlen, amb, saved, nfit>>

Forward(statsMove) ==
  /\ phase = "train" /\ bi < cfg.NB /\ ~fwd /\ ~bwdone
  /\ mtrain /\ gmode                       \* computed with the model in training mode, gradients tracked
  /\ fwd' = TRUE
  /\ sver' = IF statsMove THEN sver + 1 ELSE sver
  /\ UNCHANGED <<cfg, phase, ep, bi, vb, mtrain, gmode, ngdepth, steps, zeroed, bwdone, pver, hlen, amb, saved, nfit>>

ZeroGrad ==
  /\ phase = "train" /\ bi < cfg.NB /\ ~zeroed /\ ~bwdone
  /\ zeroed' = TRUE
  /\ UNCHANGED <<cfg, phase, ep, bi, vb, mtrain, gmode, ngdepth, steps, fwd, bwdone, pver, sver, hlen, amb, saved, nfit>>

Backward ==
  /\ phase = "train" /\ fwd /\ zeroed /\ ~bwdone /\ gmode
  /\ bwdone' = TRUE
  /\ UNCHANGED <<cfg, phase, ep, bi, vb, mtrain, gmode, ngdepth, steps, fwd, zeroed, pver, sver, hlen, amb, saved, nfit>>

Step(paramsMove) ==
  /\ phase = "train" /\ bwdone /\ mtrain /\ gmode
  /\ steps' = steps + 1 /\ bi' = bi + 1
  /\ pver' = IF paramsMove THEN pver + 1 ELSE pver
  /\ fwd' = FALSE /\ zeroed' = FALSE /\ bwdone' = FALSE
  /\ UNCHANGED <<cfg, phase, ep, vb, mtrain, gmode, ngdepth, sver, hlen, amb, saved, nfit>>

\* all batches of the epoch done: either validate or close the epoch
ValBegin ==
  /\ phase = "train" /\ bi = cfg.NB /\ cfg.NV > 0 /\ ~fwd /\ ~zeroed
  /\ phase' = "val"
  /\ UNCHANGED <<cfg, ep, bi, vb, mtrain, gmode, ngdepth, steps, fwd, zeroed, bwdone, pver, sver, hlen, amb, saved, nfit>>

ModelEval ==
  /\ phase \in {"val", "test"}
  /\ mtrain' = FALSE
  /\ UNCHANGED <<cfg, phase, ep, bi, vb, gmode, ngdepth, steps, fwd, zeroed, bwdone, pver, sver, hlen, amb, saved, nfit>>

NoGradEnter ==
  /\ phase \in {"val", "test"} /\ ngdepth = 0 /\ vb = 0        \* entered once, before the first forward
  /\ ngdepth' = 1 /\ gmode' = FALSE /\ saved' = gmode
  /\ UNCHANGED <<cfg, phase, ep, bi, vb, mtrain, steps, fwd, zeroed, bwdone, pver, sver, hlen, amb, nfit>>

ValForward ==
  /\ phase \in {"val", "test"} /\ (phase = "val" => vb < cfg.NV) /\ (phase = "test" => vb < cfg.NT)
  /\ ~mtrain /\ ~gmode                      \* eval mode, gradient tracking disabled
  /\ vb' = vb + 1
  /\ UNCHANGED <<cfg, phase, ep, bi, mtrain, gmode, ngdepth, steps, fwd, zeroed, bwdone, pver, sver, hlen, amb, saved, nfit>>

NoGradExit ==
  /\ phase \in {"val", "test"} /\ ngdepth = 1 /\ (phase = "val" => vb = cfg.NV) /\ (phase = "test" => vb = cfg.NT)
  /\ ngdepth' = 0 /\ gmode' = saved         \* the mode found on entry - not the mode at any other time
  /\ UNCHANGED <<cfg, phase, ep, bi, vb, mtrain, steps, fwd, zeroed, bwdone, pver, sver, hlen, amb, saved, nfit>>

EpochEnd ==
  /\ \/ phase = "train" /\ bi = cfg.NB /\ cfg.NV = 0 /\ ~fwd /\ ~zeroed
     \/ phase = "val" /\ vb = cfg.NV /\ ngdepth = 0
  /\ ep' = ep + 1 /\ hlen' = hlen + 1       \* exactly one history entry per key and epoch
  /\ phase' = IF ep + 1 = cfg.E THEN "done" ELSE "between"
  /\ UNCHANGED <<cfg, bi, vb, mtrain, gmode, ngdepth, steps, fwd, zeroed, bwdone, pver, sver, amb, saved, nfit>>

\* fit() returns: every epoch has been run
FitEnd ==
  /\ phase = "done"
  /\ phase' = "finished"
  /\ UNCHANGED <<cfg, ep, bi, vb, mtrain, gmode, ngdepth, steps, fwd, zeroed, bwdone, pver, sver, hlen, amb, saved, nfit>>

\* fit() is called again on the same Trainer: epochs, step count and history start afresh (the history returned by a
\* fit has one entry per epoch of THAT fit)
FitAgain ==
  /\ phase = "finished" /\ nfit = 0 /\ gmode
  /\ phase' = "idle" /\ ep' = 0 /\ hlen' = 0 /\ steps' = 0 /\ bi' = 0 /\ vb' = 0 /\ nfit' = 1
  /\ UNCHANGED <<cfg, mtrain, gmode, ngdepth, fwd, zeroed, bwdone, pver, sver, amb, saved>>

\* Trainer.test(): model.eval(), no_grad, forwards, exit
TestBegin ==
  /\ phase \in {"idle", "finished"}
  /\ phase' = "test" /\ vb' = 0
  /\ UNCHANGED <<cfg, ep, bi, mtrain, gmode, ngdepth, steps, fwd, zeroed, bwdone, pver, sver, hlen, amb, saved, nfit>>
TestEnd ==
  /\ phase = "test" /\ ngdepth = 0 /\ ~mtrain /\ vb = cfg.NT
  /\ phase' = "tested"
  /\ UNCHANGED <<cfg, ep, bi, vb, mtrain, gmode, ngdepth, steps, fwd, zeroed, bwdone, pver, sver, hlen, amb, saved, nfit>>

Next ==
  \/ AmbientToggle \/ FitAgain
  \/ EpochBegin \/ ModelTrain \/ CallbackEval \/ ZeroGrad \/ Backward \/ ValBegin \/ ModelEval \/ NoGradEnter \/ ValForward \/ NoGradExit
  \/ EpochEnd \/ FitEnd \/ TestBegin \/ TestEnd
  \/ \E b \in BOOLEAN : Forward(b) \/ Step(b)

Fair ==
  /\ WF_vars(EpochBegin) /\ WF_vars(ZeroGrad) /\ WF_vars(Backward) /\ WF_vars(ValBegin) /\ WF_vars(ModelEval)
  /\ WF_vars(NoGradEnter) /\ WF_vars(ValForward) /\ WF_vars(NoGradExit) /\ WF_vars(EpochEnd)
  /\ WF_vars(\E b \in BOOLEAN : Forward(b)) /\ WF_vars(\E b \in BOOLEAN : Step(b)) /\ WF_vars(ModelTrain)
\* fit alone (no test) for liveness
FitNext ==
  \/ EpochBegin \/ ModelTrain \/ CallbackEval \/ ZeroGrad \/ Backward \/ ValBegin \/ ModelEval \/ NoGradEnter \/ ValForward \/ NoGradExit \/ EpochEnd
  \/ \E b \in BOOLEAN : Forward(b) \/ Step(b)
FitSpec == Init /\ [][FitNext]_vars /\ Fair

-----------------------------------------------------------------------------
\* exactly epochs x len(train_loader) parameter updates
StepCount == (phase \in {"done", "finished", "between"} => steps = ep * cfg.NB) /\ (phase = "train" => steps = ep * cfg.NB + bi)
\* one history entry per epoch
HistLen == (phase \in {"done", "finished"} => hlen = cfg.E) /\ hlen = ep
\* each update is preceded by clearing the gradients and computed in training mode with gradients on
StepGuard == [][(steps' > steps) => (mtrain /\ gmode /\ zeroed /\ bwdone /\ fwd)]_vars
\* validation and test change no parameter and no running statistic
EvalFrozen == [][(phase \in {"val", "test"}) => (pver' = pver /\ sver' = sver)]_vars
\* parameters move only in step, running statistics only in a training-mode forward
ParamsOnlyInStep == [][pver' # pver => steps' = steps + 1]_vars
StatsOnlyInTrainFwd == [][sver' # sver => (phase = "train" /\ mtrain /\ fwd' /\ ~fwd)]_vars
\* validation / test leave the global gradient mode as they found it
GradModeRestored == (phase \in {"idle", "train", "between", "done", "finished", "tested"}) => (gmode = amb /\ ngdepth = 0)
\* fit terminates
Terminates == <>(phase = "done")

=============================================================================
