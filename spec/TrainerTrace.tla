---------------------------- MODULE TrainerTrace ----------------------------
(***************************************************************************)
(* Trace specification for Trainer.tla: validates executions recorded from  *)
(* the real synapgrad Trainer (code -> spec conformance).  Every trace       *)
(* action is  IsEvent(name) /\ SpecAction /\ <logged scalar state agrees>.   *)
(***************************************************************************)
EXTENDS Trainer

(* The trace file (JSON) is a sequence of traces; each trace is               *)
(* [cfg |-> [E, NB, NV], ev |-> sequence of events [e, tr, gm, pv, sv]].       *)
Traces == JsonDeserialize(IOEnv.TRACE_FILE)

VARIABLES tid, l
tvars == <<vars, tid, l>>

Ev == Traces[tid].ev[l]
IsEvent(e) == l <= Len(Traces[tid].ev) /\ Ev.e = e /\ l' = l + 1 /\ tid' = tid
\* cheap scalar state logged with every event must agree with the specification after the action
Logged == mtrain' = Ev.tr /\ gmode' = Ev.gm /\ pver' = Ev.pv /\ sver' = Ev.sv

TraceInit ==
  /\ tid \in 1..Len(Traces) /\ l = 1
  /\ cfg = Traces[tid].cfg
  /\ phase = "idle" /\ ep = 0 /\ bi = 0 /\ vb = 0
  /\ mtrain = Traces[tid].tr0
  /\ gmode = TRUE /\ ngdepth = 0 /\ amb = TRUE /\ saved = TRUE /\ nfit = 0
  /\ steps = 0 /\ fwd = FALSE /\ zeroed = FALSE /\ bwdone = FALSE
  /\ pver = 0 /\ sver = 0 /\ hlen = 0

\* steps of the specification that the recorder cannot see (the loop moving on to its next part) are silent trace
\* steps, enabled only when the next logged event is the call that follows them - so they are bounded by the trace
Silent(e, A) == l <= Len(Traces[tid].ev) /\ Ev.e = e /\ A /\ UNCHANGED <<tid, l>>
TraceNext ==
  \/ Silent("train", EpochBegin) \/ Silent("eval", ValBegin) \/ Silent("eval", TestBegin) \/ Silent("train", FitAgain)
  \/ IsEvent("ambient")   /\ AmbientToggle /\ Logged       \* the harness (as the caller) enters / leaves its own no_grad block
  \/ IsEvent("train")     /\ ModelTrain /\ Logged
  \/ IsEvent("forward")   /\ ((\E b \in BOOLEAN : Forward(b)) \/ ValForward) /\ Logged      \* which one: decided by the specification's phase
  \/ IsEvent("zero_grad") /\ ZeroGrad /\ Logged
  \/ IsEvent("backward")  /\ Backward /\ Logged
  \/ IsEvent("step")      /\ (\E b \in BOOLEAN : Step(b)) /\ Logged
  \/ IsEvent("eval")      /\ (ModelEval \/ CallbackEval) /\ Logged
  \/ IsEvent("ng_enter")  /\ NoGradEnter /\ Logged
  \/ IsEvent("ng_exit")   /\ NoGradExit /\ Logged
  \/ IsEvent("epoch_end") /\ EpochEnd /\ Logged /\ hlen' = Ev.hl
  \/ IsEvent("fit_end")   /\ FitEnd /\ Logged /\ Ev.hmin = cfg.E /\ Ev.hmax = cfg.E
  \/ IsEvent("test_end")  /\ TestEnd /\ Logged

TraceSpec == TraceInit /\ [][TraceNext]_tvars

\* progress report: the harness accepts trace tid iff some state with l = Len + 1 was reached
Progress == PrintT(ToJson([tid |-> tid, l |-> l, done |-> (l = Len(Traces[tid].ev) + 1), phase |-> phase, steps |-> steps]))
TraceStepCount == (phase \in {"finished", "tested"} /\ Traces[tid].fit) => (steps = cfg.E * cfg.NB /\ hlen = cfg.E)
=============================================================================
