------------------------------- MODULE QArith -------------------------------
(* Exact rational arithmetic for TLC.  A rational is <<n, d>> with d > 0 and  *)
(* gcd(|n|, d) = 1.  TLC integers are 32-bit: callers keep magnitudes small.  *)
EXTENDS Integers, Sequences

QAbs(x) == IF x < 0 THEN 0 - x ELSE x

RECURSIVE GCD(_, _)
GCD(a, b) == IF b = 0 THEN a ELSE GCD(b, a % b)

\* normalise n/d (d # 0)
QN(n, d) ==
  IF d = 1 THEN <<n, 1>>
  ELSE LET s == IF d < 0 THEN 0 - 1 ELSE 1
           g == GCD(QAbs(n), QAbs(d))
       IN IF n = 0 THEN <<0, 1>> ELSE <<(s * n) \div g, (s * d) \div g>>

QI(n)      == <<n, 1>>
Q0         == <<0, 1>>
Q1         == <<1, 1>>
QAdd(a, b) == IF a[2] = b[2] THEN QN(a[1] + b[1], a[2])
              ELSE LET g == GCD(a[2], b[2]) IN QN(a[1] * (b[2] \div g) + b[1] * (a[2] \div g), (a[2] \div g) * b[2])
QNeg(a)    == <<0 - a[1], a[2]>>
QSub(a, b) == QAdd(a, QNeg(b))
QMul(a, b) == IF a[1] = 0 \/ b[1] = 0 THEN Q0
              ELSE LET g1 == GCD(QAbs(a[1]), b[2])  g2 == GCD(QAbs(b[1]), a[2])      \* cross-cancel first (32-bit integers)
                   IN QN((a[1] \div g1) * (b[1] \div g2), (a[2] \div g2) * (b[2] \div g1))
QInv(a)    == IF a[1] < 0 THEN <<0 - a[2], 0 - a[1]>> ELSE <<a[2], a[1]>>      \* a # 0
QDiv(a, b) == QMul(a, QInv(b))
QLess(a, b) == a[1] * b[2] < b[1] * a[2]
QEq(a, b)  == a = b
QIsZero(a) == a[1] = 0

RECURSIVE QPowNat(_, _)
QPowNat(a, e) == IF e = 0 THEN Q1 ELSE QMul(a, QPowNat(a, e - 1))
QPow(a, e) == IF e >= 0 THEN QPowNat(a, e) ELSE QPowNat(QInv(a), 0 - e)        \* a # 0 when e < 0

RECURSIVE QSumSeq(_)
QSumSeq(s) == IF s = <<>> THEN Q0 ELSE QAdd(s[1], QSumSeq(Tail(s)))

\* exact square root when it exists: <<TRUE, r>> or <<FALSE, Q0>>
RECURSIVE ISqrtFrom(_, _)
ISqrtFrom(n, k) == IF k * k >= n THEN k ELSE ISqrtFrom(n, k + 1)
ISqrt(n) == ISqrtFrom(n, 0)       \* smallest k with k*k >= n  (n small)
QSqrt(a) ==
  IF a[1] < 0 THEN <<FALSE, Q0>>
  ELSE LET rn == ISqrt(a[1])
           rd == ISqrt(a[2])
       IN IF rn * rn = a[1] /\ rd * rd = a[2] THEN <<TRUE, <<rn, rd>>>> ELSE <<FALSE, Q0>>
=============================================================================
