------------------------------ MODULE OpCatalog ------------------------------
(***************************************************************************)
(* The case machine for synapgrad's tensor operations (C01, C05, C10, C11,   *)
(* C14):  idle --Apply(case)--> applied --Differentiate--> diffed.           *)
(* TLC enumerates every case of the selected family (operand shapes x        *)
(* arguments x value pattern), evaluates the forward definition of           *)
(* TensorAlg exactly, derives the vector-Jacobian products for the selected  *)
(* upstream gradients, and emits one JSON line per case.                     *)
(* Acceptance policy: "UNDEF" = the arguments cannot be honoured, the call   *)
(* must raise; "MUST" = documented, must be accepted with exactly this       *)
(* result; "MAY" = not promised by the docstrings: raising is fine, a        *)
(* returned value must be the specification's.                               *)
(***************************************************************************)
EXTENDS CaseCommon

CONSTANTS
  Sizes,       \* dimension sizes offered, e.g. {1, 2} or {1, 2, 3}
  MaxRank,     \* maximal operand rank for the generic families
  Pats         \* value patterns for the polynomial families: "A" (mixed-sign distinct integers), "S" (halves in [-2, 2], zeros included)

\* ---------------------------------------------------------------------------
\* shapes
ShapesUpTo(r, sz) == UNION {[1..q -> sz] : q \in 0..r}
Shapes == ShapesUpTo(MaxRank, Sizes)
ShapesFrom(lo, hi, sz) == UNION {[1..q -> sz] : q \in lo..hi}
Dims(n) == (0 - n - 1)..n                       \* every dim in range plus one on each side
PairsDistinct(n) == {<<a, b>> \in ((0 - n)..(n - 1)) \X ((0 - n)..(n - 1)) : ND(a, n) # ND(b, n)}

Opt(S) == {<<>>} \cup {<<v>> : v \in S}
Scalars == {QI(2), QI(0 - 3), <<1, 2>>}

\* ---------------------------------------------------------------------------
\* case sets per family.  A case: [op, shapes, a (argument record), pat]
BinCases == {C(op, <<s1, s2>>, NoArg, pt) : op \in {"add", "sub", "mul", "div"}, s1 \in Shapes, s2 \in Shapes, pt \in Pats}
            \cup {C(op, <<s1, s2>>, NoArg, "Z") : op \in {"add", "sub", "mul"}, s1 \in Shapes, s2 \in Shapes}      \* exact zeros among the values
            \* the same tensor used twice by one operation: both operands are one object (pattern "AA": X[2] = X[1])
            \cup {C(op, <<s1, s1>>, [alias |-> TRUE], "AA") : op \in {"add", "sub", "mul", "div"}, s1 \in Shapes}

ScalarCases ==
  {C(op, <<s>>, [c |-> c], "A") : op \in {"addc", "raddc", "subc", "rsubc", "mulc", "rmulc", "divc", "rdivc"}, s \in Shapes, c \in Scalars}
  \cup {C(op, <<s>>, NoArg, "A") : op \in {"neg", "clone"}, s \in Shapes}
  \cup {C("powi", <<s>>, [n |-> n], "A") : s \in Shapes, n \in (0 - 2)..3}
  \* operand values that include exact zeros (and repeated values), where the function is defined there
  \cup {C("powi", <<s>>, [n |-> n], "Z") : s \in Shapes, n \in 0..3}
  \cup {C(op, <<s>>, [c |-> c], "Z") : op \in {"mulc", "rsubc", "divc"}, s \in Shapes, c \in {QI(2)}}
  \cup {C(op, <<s>>, NoArg, "Z") : op \in {"neg", "clone"}, s \in Shapes}

RtermCases ==
  {C(op, <<s>>, NoArg, "S") : op \in {"exp"}, s \in Shapes}
  \cup {C(op, <<s>>, NoArg, "P") : op \in {"log", "sqrt"}, s \in Shapes}
  \cup {C("powf", <<s>>, [p |-> p], "P") : s \in Shapes, p \in {<<1, 2>>, <<3, 2>>, <<0 - 1, 2>>}}
  \cup {C("rpow", <<s>>, [b |-> b], "S") : s \in Shapes, b \in {QI(2), <<1, 2>>, QI(3)}}

MMSizes == Sizes
Batches == {<<>>, <<1>>, <<2>>} \cup (IF 3 \in Sizes THEN {<<3>>, <<2, 1>>, <<1, 2>>} ELSE {})
MatmulCases ==
  {C("matmul", <<b1 \o <<m, t>>, b2 \o <<t2, n>>>>, NoArg, pt) :
     b1 \in Batches, b2 \in Batches, m \in MMSizes, t \in MMSizes, t2 \in MMSizes, n \in MMSizes, pt \in Pats}
MatmulAlias == {C("matmul", <<<<n, n>>, <<n, n>>>>, [alias |-> TRUE], "AA") : n \in MMSizes}
AddmmCases ==
  UNION {{C("addmm", <<sa, <<q[1], q[2]>>, <<q[3], q[4]>>>>, NoArg, "A") :
            sa \in {<<>>, <<1>>, <<q[4]>>, <<q[1], 1>>, <<1, q[4]>>, <<q[1], q[4]>>, <<q[1] + 1, q[4]>>, <<1, 1, q[4]>>}} :
         q \in MMSizes \X MMSizes \X MMSizes \X MMSizes}

\* reductions
RedArgs(n) == {<<>>} \cup {<<d>> : d \in Dims(n)} \cup {<<p[1], p[2]>> : p \in PairsDistinct(n)}
              \cup (IF n >= 2 THEN {<<0, 0>>, <<0, 0 - n>>} ELSE {})                  \* repeated dim
              \cup (IF n >= 3 THEN {<<0, 0 - 1, 1>>} ELSE {})
RedCases ==
  {C(op, <<s>>, [dims |-> dims, keep |-> keep], pt) :
     op \in {"sum", "mean"}, s \in Shapes, dims \in RedArgs(MaxRank), keep \in BOOLEAN, pt \in Pats}
ExtArgs(n) == {<<>>} \cup {<<d>> : d \in Dims(n)}
ExtCases ==
  {C(op, <<s>>, [dims |-> dims, keep |-> keep], pat) :
     op \in {"max", "min"}, s \in Shapes, dims \in ExtArgs(MaxRank), keep \in BOOLEAN, pat \in {"A", "T"}}

\* shape manipulation (sizes {1,2} up to rank MaxRank + 1)
ManShapes == ShapesUpTo(MaxRank + 1, {1, 2})
SqueezeArgs(n) == {<<>>} \cup {<<d>> : d \in Dims(n)} \cup {<<p[1], p[2]>> : p \in PairsDistinct(n)}
SqueezeCases == {C("squeeze", <<s>>, [dims |-> dims], "A") : s \in ManShapes, dims \in SqueezeArgs(MaxRank + 1)}
UnsqueezeCases ==
  {C("unsqueeze", <<s>>, [dims |-> dims], "A") : s \in Shapes,
     dims \in {<<d>> : d \in Dims(MaxRank + 1)} \cup {<<0, 1>>, <<0, 0 - 1>>, <<1, 0 - 2>>, <<0, 0>>, <<2, 0>>}}
RShapes == {<<>>, <<1>>, <<2>>, <<4>>, <<6>>, <<8>>, <<0 - 1>>, <<2, 0 - 1>>, <<0 - 1, 2>>, <<1, 0 - 1>>, <<2, 2>>, <<2, 3>>, <<3, 2>>, <<4, 2>>,
            <<2, 2, 2>>, <<1, 2, 0 - 1>>, <<0 - 1, 1, 2>>, <<2, 0 - 1, 2>>, <<0 - 1, 0 - 1>>, <<3, 0 - 1>>}
ReshapeCases == {C("reshape", <<s>>, [shape |-> t], "A") : s \in Shapes, t \in RShapes}
FlattenCases == {C("flatten", <<s>>, [sd |-> a, ed |-> b], "A") : s \in ManShapes, a \in Dims(MaxRank + 1), b \in Dims(MaxRank + 1)}
DistinctShapes == {s \in ShapesFrom(1, MaxRank + 1, {1, 2, 3}) : \A d \in 1..Len(s) : s[d] = ((d - 1) % 3) + 1 \/ s[d] = ((d) % 3) + 1}
MoveCases ==
  {C(op, <<s>>, [a |-> a, b |-> b], "A") : op \in {"movedim", "transpose"}, s \in DistinctShapes,
     a \in Dims(MaxRank + 1), b \in Dims(MaxRank + 1)}
UnfoldCases ==
  {C("unfold", <<s>>, [dim |-> d, size |-> z, step |-> st], "A") : s \in ShapesFrom(1, MaxRank, Sizes \cup {3, 4}),
     d \in Dims(MaxRank), z \in 1..4, st \in 1..3}

\* joining
CatLists ==
  LET Base == ShapesFrom(1, MaxRank, Sizes)
      With(s, a, v) == [d \in 1..Len(s) |-> IF d = a THEN v ELSE s[d]]
  IN {<<s>> : s \in Base}
     \cup {<<With(s, a, v1), With(s, a, v2)>> : s \in Base, a \in 1..MaxRank, v1 \in {1, 2}, v2 \in {1, 3}}
     \cup {<<With(s, a, 1), With(s, a, 2), With(s, a, 1)>> : s \in Base, a \in 1..MaxRank}
     \cup {<<s, t>> : s \in Base, t \in Base}
CatListsOK == {L \in CatLists : \A k \in 1..Len(L) : Len(L[k]) = Len(L[1])}
ConcatCases == {C("concat", L, [dim |-> d], "A") : L \in CatLists, d \in Dims(MaxRank)}
StackCases ==
  {C("stack", L, [dim |-> d], "A") : L \in {<<s>> : s \in Shapes} \cup {<<s, s>> : s \in Shapes} \cup {<<s, s, s>> : s \in Shapes}
                                               \cup {<<s, t>> : s \in ShapesUpTo(2, Sizes), t \in ShapesUpTo(2, Sizes)},
     d \in Dims(MaxRank + 1)}
UnbindCases == {C("unbind", <<s>>, [dim |-> d, t |-> t], "A") : s \in Shapes, d \in Dims(MaxRank), t \in 1..3}

\* indexing
IntsFor  == {0, 1, 0 - 1, 0 - 2, 2, 3, 0 - 4}
SliceSet == {[t |-> "slice", a |-> a, b |-> b, st |-> st] :
               a \in Opt({0, 1, 0 - 2}), b \in Opt({0 - 1, 2, 3}), st \in {1, 2, 0 - 1, 0 - 2}}
ArrSet   == {[t |-> "arr", ix |-> ix] : ix \in {<<0, 0>>, <<1, 0, 1>>, <<0 - 1, 0>>, <<0>>, <<2, 2, 0>>}}
IntSet   == {[t |-> "int", i |-> i] : i \in IntsFor}
BasicItems == IntSet \cup SliceSet
Ell == [t |-> "ell"]
New == [t |-> "new"]
SomeSlices == {[t |-> "slice", a |-> <<>>, b |-> <<>>, st |-> 1], [t |-> "slice", a |-> <<1>>, b |-> <<>>, st |-> 1],
               [t |-> "slice", a |-> <<>>, b |-> <<>>, st |-> 0 - 1], [t |-> "slice", a |-> <<>>, b |-> <<0 - 1>>, st |-> 2]}
SomeInts == {[t |-> "int", i |-> 0], [t |-> "int", i |-> 0 - 1], [t |-> "int", i |-> 1]}
ItemLists ==
  {<<x>> : x \in BasicItems \cup ArrSet \cup {Ell, New}}
  \cup {<<x, y>> : x \in SomeSlices \cup SomeInts \cup {Ell, New}, y \in SomeSlices \cup SomeInts \cup {Ell, New}}
  \cup {<<x, y>> : x \in ArrSet, y \in SomeSlices} \cup {<<x, y>> : x \in SomeSlices, y \in ArrSet}
  \cup {<<x, y, z>> : x \in SomeInts \cup {Ell}, y \in SomeSlices \cup {New}, z \in SomeInts \cup SomeSlices}
GetitemCases == {C("getitem", <<s>>, [items |-> its], "A") : s \in ShapesFrom(1, MaxRank, Sizes \cup {3}), its \in ItemLists}

\* larger ranks and sizes (rank 3..5, sizes up to 5), a sparse set of shapes with every dim argument
BigShapes == {<<2, 3, 4>>, <<3, 1, 4, 2>>, <<2, 1, 3, 2, 2>>, <<5, 4>>, <<7, 6>>}
DimsOf(sh) == (0 - Len(sh))..(Len(sh) - 1)
Suffixes(sh) == {SubSeq(sh, i, Len(sh)) : i \in 1..(Len(sh) + 1)} \cup {[d \in 1..Len(sh) |-> IF d % 2 = 1 THEN 1 ELSE sh[d]]}
BigCases ==
  UNION {
    {C(op, <<sh, t>>, NoArg, "A") : op \in {"add", "mul", "div"}, t \in Suffixes(sh)}
    \cup {C(op, <<t, sh>>, NoArg, "A") : op \in {"sub"}, t \in Suffixes(sh)}
    \cup {C(op, <<sh>>, [dims |-> dims, keep |-> k], "A") : op \in {"sum", "mean"}, k \in BOOLEAN,
            dims \in {<<>>} \cup {<<d>> : d \in DimsOf(sh)} \cup {<<a, b>> : a \in {0, 0 - 1}, b \in {1, 0 - 2}} \cup {<<0, 0 - 1, 1>>}}
    \cup {C(op, <<sh>>, [dims |-> <<d>>, keep |-> k], "A") : op \in {"max", "min"}, d \in DimsOf(sh), k \in BOOLEAN}
    \cup {C(op, <<sh>>, [a |-> a, b |-> b], "A") : op \in {"movedim", "transpose"}, a \in DimsOf(sh), b \in DimsOf(sh)}
    \cup {C("flatten", <<sh>>, [sd |-> a, ed |-> b], "A") : a \in DimsOf(sh), b \in DimsOf(sh)}
    \cup {C("unfold", <<sh>>, [dim |-> d, size |-> z, step |-> st], "A") : d \in DimsOf(sh), z \in {1, 2, 4}, st \in {1, 2, 3}}
    \cup {C("squeeze", <<sh>>, [dims |-> dims], "A") : dims \in {<<>>} \cup {<<d>> : d \in DimsOf(sh)} \cup {<<1, 0 - 1>>}}
    \cup {C("unsqueeze", <<sh>>, [dims |-> <<d>>], "A") : d \in (0 - Len(sh) - 1)..Len(sh)}
    \cup {C("reshape", <<sh>>, [shape |-> t], "A") : t \in {<<0 - 1>>, <<2, 0 - 1>>, <<0 - 1, 2, 2>>, <<4, 0 - 1>>, <<3, 0 - 1>>}}
    \cup {C("stack", <<sh, sh>>, [dim |-> d], "A") : d \in (0 - Len(sh) - 1)..Len(sh)}
    \cup {C("concat", <<sh, sh, sh>>, [dim |-> d], "A") : d \in DimsOf(sh)}
    \* four and five operands, of different sizes along the joined dim
    \cup {C("concat", <<sh, [sh EXCEPT ![1] = 1], sh, [sh EXCEPT ![1] = 2], sh>>, [dim |-> d], "A") : d \in {0, 0 - Len(sh)}}
    \cup {C("concat", <<sh, [sh EXCEPT ![Len(sh)] = 3], [sh EXCEPT ![Len(sh)] = 1], sh>>, [dim |-> d], "A") : d \in {Len(sh) - 1, 0 - 1}}
    \cup {C("stack", <<sh, sh, sh, sh, sh>>, [dim |-> d], "A") : d \in {0, 1, 0 - 1}}
    \cup {C("unbind", <<sh>>, [dim |-> d, t |-> 1], "A") : d \in DimsOf(sh)}
    \cup {C("getitem", <<sh>>, [items |-> its], "A") :
            its \in {<<Ell, [t |-> "int", i |-> 0 - 1]>>, <<[t |-> "int", i |-> 1], Ell, [t |-> "slice", a |-> <<>>, b |-> <<>>, st |-> 0 - 1]>>,
                     <<[t |-> "slice", a |-> <<1>>, b |-> <<>>, st |-> 1], New, [t |-> "slice", a |-> <<>>, b |-> <<>>, st |-> 2]>>,
                     <<[t |-> "arr", ix |-> <<1, 0, 1>>], [t |-> "slice", a |-> <<>>, b |-> <<0 - 1>>, st |-> 1]>>,
                     <<[t |-> "slice", a |-> <<>>, b |-> <<>>, st |-> 1], [t |-> "arr", ix |-> <<0, 0>>]>>}}
    \cup {C("matmul", <<sh, t>>, NoArg, "A") : t \in {<<sh[Len(sh)], 3>>, SubSeq(sh, 1, Len(sh) - 2) \o <<sh[Len(sh)], 2>>}}
    : sh \in BigShapes}

Cases ==
  CASE Family = "bin" -> BinCases [] Family = "big" -> BigCases [] Family = "scalar" -> ScalarCases [] Family = "rterm" -> RtermCases
    [] Family = "matmul" -> MatmulCases \cup MatmulAlias [] Family = "addmm" -> AddmmCases
    [] Family = "red" -> RedCases [] Family = "ext" -> ExtCases
    [] Family = "squeeze" -> SqueezeCases \cup UnsqueezeCases
    [] Family = "reshape" -> ReshapeCases \cup FlattenCases
    [] Family = "move" -> MoveCases [] Family = "unfold" -> UnfoldCases
    [] Family = "concat" -> ConcatCases [] Family = "stack" -> StackCases \cup UnbindCases
    [] Family = "getitem" -> GetitemCases

\* ---------------------------------------------------------------------------
\* the form of a case (forward definition) and its policy
FormOf(c) ==
  LET s == c.shapes  a == c.a IN
  CASE c.op = "add" -> F_add(s[1], s[2]) [] c.op = "sub" -> F_sub(s[1], s[2])
    [] c.op = "mul" -> F_mul(s[1], s[2]) [] c.op = "div" -> F_div(s[1], s[2])
    [] c.op \in {"addc", "raddc"} -> F_addc(s[1], a.c) [] c.op = "subc" -> F_subc(s[1], a.c)
    [] c.op = "rsubc" -> F_rsubc(s[1], a.c) [] c.op \in {"mulc", "rmulc"} -> F_mulc(s[1], a.c)
    [] c.op = "divc" -> F_divc(s[1], a.c) [] c.op = "rdivc" -> F_rdivc(s[1], a.c)
    [] c.op = "neg" -> F_neg(s[1]) [] c.op = "clone" -> F_clone(s[1]) [] c.op = "powi" -> F_powi(s[1], a.n)
    [] c.op \in {"exp", "log", "sqrt"} -> F_rterm(s[1], c.op, Q0)
    [] c.op = "powf" -> F_rterm(s[1], "powf", a.p) [] c.op = "rpow" -> F_rterm(s[1], "rpow", a.b)
    [] c.op = "matmul" -> F_matmul(s[1], s[2]) [] c.op = "addmm" -> F_addmm(s[1], s[2], s[3])
    [] c.op = "sum" -> F_sum(s[1], a.dims, a.keep) [] c.op = "mean" -> F_mean(s[1], a.dims, a.keep)
    [] c.op = "max" -> F_ext(s[1], a.dims, a.keep, TRUE) [] c.op = "min" -> F_ext(s[1], a.dims, a.keep, FALSE)
    [] c.op = "squeeze" -> F_squeeze(s[1], a.dims) [] c.op = "unsqueeze" -> F_unsqueeze(s[1], a.dims)
    [] c.op = "reshape" -> F_reshape(s[1], a.shape) [] c.op = "flatten" -> F_flatten(s[1], a.sd, a.ed)
    [] c.op = "movedim" -> F_movedim(s[1], a.a, a.b) [] c.op = "transpose" -> F_transpose(s[1], a.a, a.b)
    [] c.op = "unfold" -> F_unfold(s[1], a.dim, a.size, a.step)
    [] c.op = "concat" -> F_concat(s, a.dim) [] c.op = "stack" -> F_stack(s, a.dim)
    [] c.op = "unbind" -> IF Len(s[1]) > 0 /\ InRange(a.dim, Len(s[1])) /\ a.t > s[1][ND(a.dim, Len(s[1])) + 1] THEN Bad ELSE F_unbind(s[1], a.dim, a.t)
    [] c.op = "getitem" -> F_getitem(s[1], a.items)

\* arguments that NumPy/PyTorch accept but synapgrad's docstrings do not promise
MayOnly(c) ==
  \* the same dim named twice in squeeze's tuple (PyTorch rejects it, NumPy only when the dim has size 1)
  \/ c.op = "squeeze" /\ Len(c.shapes[1]) > 0 /\ Cardinality({ND(c.a.dims[p], Len(c.shapes[1])) : p \in 1..Len(c.a.dims)}) # Len(c.a.dims)
  \/ c.op \in {"sum", "mean"} /\ Len(c.a.dims) > 2
  \/ c.op = "addmm" /\ (Len(c.shapes[1]) > 2 \/ BShape(c.shapes[1], <<c.shapes[2][1], c.shapes[3][2]>>) # <<c.shapes[2][1], c.shapes[3][2]>>)

Policy(c, f) == IF ~f.ok THEN "UNDEF" ELSE IF MayOnly(c) THEN "MAY" ELSE "MUST"

\* a case is skipped when its result would be empty (zero-size tensors are outside the catalogue) or uninformative
Relevant(c) ==
  LET f == FormOf(c) IN
  /\ \A k \in 1..Len(c.shapes) : Prod(c.shapes[k]) >= 1
  /\ (f.ok => Prod(f.shape) >= 1)
  /\ (c.op = "unbind" => (Len(c.shapes[1]) = 0 \/ ~InRange(c.a.dim, Len(c.shapes[1])) \/ c.a.t <= c.shapes[1][ND(c.a.dim, Len(c.shapes[1])) + 1]))

\* ---------------------------------------------------------------------------
\* divisors use a pattern with few distinct denominators (sums over broadcast dims stay within 32-bit integers)
FillOp(c) == IF c.pat = "AA" THEN (LET v == Fill(IF c.op = "div" THEN "D" ELSE "A", c.shapes)[1] IN [k \in 1..Len(c.shapes) |-> v])
             ELSE IF c.op = "div" THEN <<Fill("A", c.shapes)[1], Fill("D", c.shapes)[2]>> ELSE Fill(c.pat, c.shapes)
Obs(c) == LET f == FormOf(c) IN ObsOf(c, f, Policy(c, f), FillOp(c), [x |-> 0])

\* ---------------------------------------------------------------------------
Init == case \in {c \in Cases : Relevant(c)} /\ phase = "applied"
Differentiate == WithGrad /\ phase = "applied" /\ FormOf(case).ok /\ phase' = "diffed" /\ UNCHANGED case
Next == Differentiate


\* design-level sanity of the derivation: the VJP with the all-ones gradient of a poly form equals the
\* derivative of the sum of outputs, and basis gradients reproduce the rows of the Jacobian
Emit ==
  LET final == IF WithGrad /\ FormOf(case).ok THEN phase = "diffed" ELSE phase = "applied"
  IN final => PrintT(ToJson(Obs(case)))
=============================================================================
