------------------------------ MODULE TensorAlg ------------------------------
(***************************************************************************)
(* Exact tensor algebra for the operation catalogue of synapgrad.            *)
(*                                                                           *)
(* A tensor is a shape (sequence of naturals, <<>> for 0-d) and a row-major  *)
(* flat sequence of exact rationals.  Every operation is given by its        *)
(* FORWARD DEFINITION ONLY, as a "form": the output shape plus, for each      *)
(* output element, either                                                     *)
(*   - a Laurent polynomial in the operand elements (sum of monomials         *)
(*     c * PROD x[k][i]^e, e integer)         kind "poly"                     *)
(*   - a named real function of one operand element   kind "rterm"            *)
(*   - the max / min over a group of operand elements kind "ext"              *)
(* Gradients are never written down per operation: the vector-Jacobian        *)
(* product is obtained mechanically by differentiating the monomials          *)
(* (operators DMono, JacT, VJP), so the expected .grad of movedim, unfold,    *)
(* matmul, getitem ... shares nothing with the library's *_backward kernels.  *)
(***************************************************************************)
EXTENDS QArith, FiniteSets, TLC

Min2(a, b) == IF a < b THEN a ELSE b
Max2(a, b) == IF a > b THEN a ELSE b

RECURSIVE Prod(_)
Prod(s) == IF s = <<>> THEN 1 ELSE s[1] * Prod(Tail(s))

RECURSIVE SumSeq(_)
SumSeq(s) == IF s = <<>> THEN 0 ELSE s[1] + SumSeq(Tail(s))

RECURSIVE Flatten(_)
Flatten(ss) == IF ss = <<>> THEN <<>> ELSE ss[1] \o Flatten(Tail(ss))

Stride(s, d)   == Prod(SubSeq(s, d + 1, Len(s)))
Unravel(f0, s) == [d \in 1..Len(s) |-> (f0 \div Stride(s, d)) % s[d]]          \* 0-based multi-index
Ravel(idx, s)  == SumSeq([d \in 1..Len(s) |-> idx[d] * Stride(s, d)])          \* 0-based flat
ND(d, n)       == IF d < 0 THEN d + n ELSE d                                    \* normalise a dim
InRange(d, n)  == d >= 0 - n /\ d < n

\* ---------------------------------------------------------------------------
\* polynomials
Mono(c, fs)  == [c |-> c, f |-> fs]
Var(k, i)    == <<Mono(Q1, <<<<k, i, 1>>>>)>>                \* the polynomial x[k][i]
Const(c)     == <<Mono(c, <<>>)>>
Scale(c, p)  == [t \in 1..Len(p) |-> Mono(QMul(c, p[t].c), p[t].f)]

RECURSIVE ProdQ(_)
ProdQ(s) == IF s = <<>> THEN Q1 ELSE QMul(s[1], ProdQ(Tail(s)))

EvalMono(m, X) == QMul(m.c, ProdQ([p \in 1..Len(m.f) |-> QPow(X[m.f[p][1]][m.f[p][2]], m.f[p][3])]))
EvalPoly(p, X) == QSumSeq([t \in 1..Len(p) |-> EvalMono(p[t], X)])

\* partial derivatives of a monomial: one entry <<k, i, value>> per factor (product rule)
DMono(m, X) ==
  [p \in 1..Len(m.f) |->
     LET k == m.f[p][1]
         i == m.f[p][2]
         e == m.f[p][3]
         rest == ProdQ([q \in 1..Len(m.f) |-> IF q = p THEN QPow(X[k][i], e - 1) ELSE QPow(X[m.f[q][1]][m.f[q][2]], m.f[q][3])])
     IN <<k, i, QMul(QMul(m.c, QI(e)), rest)>>]
DPoly(p, X) == Flatten([t \in 1..Len(p) |-> DMono(p[t], X)])

\* transposed Jacobian: JT[k][i] = sequence of <<j, d out[j] / d x[k][i]>>
JacT(el, X) ==
  LET rows == [j \in 1..Len(el) |-> DPoly(el[j], X)]
  IN [k \in 1..Len(X) |-> [i \in 1..Len(X[k]) |->
        Flatten([j \in 1..Len(rows) |->
           LET hits == SelectSeq(rows[j], LAMBDA en : en[1] = k /\ en[2] = i)
           IN IF hits = <<>> THEN <<>> ELSE <<<<j, QSumSeq([h \in 1..Len(hits) |-> hits[h][3]])>>>>])]]

VJP(JT, g) == [k \in 1..Len(JT) |-> [i \in 1..Len(JT[k]) |->
                 QSumSeq([h \in 1..Len(JT[k][i]) |-> QMul(g[JT[k][i][h][1]], JT[k][i][h][2])])]]

\* ---------------------------------------------------------------------------
\* broadcasting
BOK(s1, s2) ==
  \A d \in 1..Min2(Len(s1), Len(s2)) :
     LET a == s1[Len(s1) - d + 1]  b == s2[Len(s2) - d + 1] IN a = b \/ a = 1 \/ b = 1
BShape(s1, s2) ==
  LET n == Max2(Len(s1), Len(s2)) IN
  [d \in 1..n |-> LET a == IF d > n - Len(s1) THEN s1[d - (n - Len(s1))] ELSE 1
                      b == IF d > n - Len(s2) THEN s2[d - (n - Len(s2))] ELSE 1
                  IN Max2(a, b)]
\* flat (1-based) index into an operand of shape s for broadcast output multi-index o
BSrc(o, s) == Ravel([d \in 1..Len(s) |-> IF s[d] = 1 THEN 0 ELSE o[Len(o) - Len(s) + d]], s) + 1

Bad == [ok |-> FALSE]
PolyForm(shape, el) == [ok |-> TRUE, kind |-> "poly", shape |-> shape, el |-> el]

EW2(s1, s2, Mk(_, _)) ==
  IF ~BOK(s1, s2) THEN Bad
  ELSE LET os == BShape(s1, s2)
       IN PolyForm(os, [j \in 1..Prod(os) |-> LET o == Unravel(j - 1, os) IN Mk(BSrc(o, s1), BSrc(o, s2))])

F_add(s1, s2) == EW2(s1, s2, LAMBDA a, b : Var(1, a) \o Var(2, b))
F_sub(s1, s2) == EW2(s1, s2, LAMBDA a, b : Var(1, a) \o Scale(QI(0 - 1), Var(2, b)))
F_mul(s1, s2) == EW2(s1, s2, LAMBDA a, b : <<Mono(Q1, <<<<1, a, 1>>, <<2, b, 1>>>>)>>)
F_div(s1, s2) == EW2(s1, s2, LAMBDA a, b : <<Mono(Q1, <<<<1, a, 1>>, <<2, b, 0 - 1>>>>)>>)

\* unary forms with a Python scalar c (exact rational) on the other side
EW1(s, Mk(_)) == PolyForm(s, [j \in 1..Prod(s) |-> Mk(j)])
F_neg(s)        == EW1(s, LAMBDA a : Scale(QI(0 - 1), Var(1, a)))
F_clone(s)      == EW1(s, LAMBDA a : Var(1, a))
F_addc(s, c)    == EW1(s, LAMBDA a : Var(1, a) \o Const(c))                    \* x + c, c + x
F_subc(s, c)    == EW1(s, LAMBDA a : Var(1, a) \o Const(QNeg(c)))              \* x - c
F_rsubc(s, c)   == EW1(s, LAMBDA a : Const(c) \o Scale(QI(0 - 1), Var(1, a)))  \* c - x
F_mulc(s, c)    == EW1(s, LAMBDA a : Scale(c, Var(1, a)))                      \* x * c, c * x
F_divc(s, c)    == EW1(s, LAMBDA a : Scale(QInv(c), Var(1, a)))                \* x / c
F_rdivc(s, c)   == EW1(s, LAMBDA a : <<Mono(c, <<<<1, a, 0 - 1>>>>)>>)         \* c / x
F_powi(s, n)    == EW1(s, LAMBDA a : IF n = 0 THEN Const(Q1) ELSE <<Mono(Q1, <<<<1, a, n>>>>)>>)   \* x ** n, n integer

\* ---------------------------------------------------------------------------
\* matmul / addmm
F_matmul(s1, s2) ==
  IF Len(s1) < 2 \/ Len(s2) < 2 THEN Bad
  ELSE LET n1 == Len(s1)  n2 == Len(s2)
           b1 == SubSeq(s1, 1, n1 - 2)  b2 == SubSeq(s2, 1, n2 - 2)
           m == s1[n1 - 1]  t == s1[n1]  t2 == s2[n2 - 1]  n == s2[n2]
       IN IF t # t2 \/ ~BOK(b1, b2) THEN Bad
          ELSE LET bs == BShape(b1, b2)
                   os == bs \o <<m, n>>
                   nb == Len(bs)
                   AIdx(o, tt) == Ravel([d \in 1..n1 |-> IF d <= n1 - 2 THEN (IF s1[d] = 1 THEN 0 ELSE o[nb - (n1 - 2) + d])
                                                         ELSE IF d = n1 - 1 THEN o[nb + 1] ELSE tt], s1) + 1
                   BIdx(o, tt) == Ravel([d \in 1..n2 |-> IF d <= n2 - 2 THEN (IF s2[d] = 1 THEN 0 ELSE o[nb - (n2 - 2) + d])
                                                         ELSE IF d = n2 - 1 THEN tt ELSE o[nb + 2]], s2) + 1
               IN PolyForm(os, [j \in 1..Prod(os) |-> LET o == Unravel(j - 1, os) IN
                                 [tt \in 1..t |-> Mono(Q1, <<<<1, AIdx(o, tt - 1), 1>>, <<2, BIdx(o, tt - 1), 1>>>>)]])

\* addmm(a, b, c) = a + b @ c with b, c 2-D (the docstring's definition: ordinary broadcasting addition)
F_addmm(sa, sb, sc) ==
  IF Len(sb) # 2 \/ Len(sc) # 2 THEN Bad
  ELSE IF sb[2] # sc[1] \/ ~BOK(sa, <<sb[1], sc[2]>>) THEN Bad
  ELSE LET mm == <<sb[1], sc[2]>>
           os == BShape(sa, mm) IN
       PolyForm(os, [j \in 1..Prod(os) |-> LET o == Unravel(j - 1, os)
                                              r == IF mm[1] = 1 THEN 0 ELSE o[Len(os) - 1]
                                              cc == IF mm[2] = 1 THEN 0 ELSE o[Len(os)] IN
                      Var(1, BSrc(o, sa)) \o
                      [tt \in 1..sb[2] |-> Mono(Q1, <<<<2, Ravel(<<r, tt - 1>>, sb) + 1, 1>>, <<3, Ravel(<<tt - 1, cc>>, sc) + 1, 1>>>>)]])

\* ---------------------------------------------------------------------------
\* index maps: out[j] = x[Src(j)]
MapForm(os, Src(_)) == PolyForm(os, [j \in 1..Prod(os) |-> Var(1, Src(j))])

F_reshape(s, shp) ==       \* shp may contain one -1
  LET neg == {d \in 1..Len(shp) : shp[d] = 0 - 1}
      known == Prod([d \in 1..Len(shp) |-> IF shp[d] = 0 - 1 THEN 1 ELSE shp[d]])
      total == Prod(s)
  IN IF Cardinality(neg) > 1 \/ (\E d \in 1..Len(shp) : shp[d] < 0 - 1) THEN Bad
     ELSE IF neg = {} THEN (IF known = total THEN MapForm(shp, LAMBDA j : j) ELSE Bad)
     ELSE IF known = 0 \/ total % known # 0 THEN Bad
     ELSE MapForm([d \in 1..Len(shp) |-> IF shp[d] = 0 - 1 THEN total \div known ELSE shp[d]], LAMBDA j : j)

\* torch.flatten: dims normalised; 0-d -> (1,)
F_flatten(s, sd, ed) ==
  LET n == Len(s) IN
  IF n = 0 THEN (IF (sd = 0 \/ sd = 0 - 1) /\ (ed = 0 \/ ed = 0 - 1) THEN MapForm(<<1>>, LAMBDA j : j) ELSE Bad)
  ELSE IF ~InRange(sd, n) \/ ~InRange(ed, n) THEN Bad
  ELSE LET a == ND(sd, n)  b == ND(ed, n) IN
       IF a > b THEN Bad
       ELSE MapForm(SubSeq(s, 1, a) \o <<Prod(SubSeq(s, a + 1, b + 1))>> \o SubSeq(s, b + 2, n), LAMBDA j : j)

\* squeeze: dims = <<>> (None) or a sequence of dims (an int is a 1-sequence); non-unit dims are left alone (PyTorch)
F_squeeze(s, dims) ==
  LET n == Len(s) IN
  IF dims = <<>> THEN MapForm(SelectSeq(s, LAMBDA x : x # 1), LAMBDA j : j)
  ELSE IF n = 0 THEN (IF \A p \in 1..Len(dims) : dims[p] \in {0, 0 - 1} THEN MapForm(<<>>, LAMBDA j : j) ELSE Bad)
  ELSE IF \E p \in 1..Len(dims) : ~InRange(dims[p], n) THEN Bad
  ELSE LET D == {ND(dims[p], n) + 1 : p \in 1..Len(dims)}
           keep == SelectSeq([d \in 1..n |-> d], LAMBDA d : ~(d \in D /\ s[d] = 1))
       IN MapForm([p \in 1..Len(keep) |-> s[keep[p]]], LAMBDA j : j)

\* unsqueeze: dims a sequence (int = 1-sequence) of positions in the OUTPUT, as numpy.expand_dims
F_unsqueeze(s, dims) ==
  LET n == Len(s) + Len(dims) IN
  IF dims = <<>> \/ (\E p \in 1..Len(dims) : ~InRange(dims[p], n)) THEN Bad
  ELSE LET D == {ND(dims[p], n) + 1 : p \in 1..Len(dims)} IN
       IF Cardinality(D) # Len(dims) THEN Bad
       ELSE LET olds == SelectSeq([d \in 1..n |-> d], LAMBDA d : d \notin D)
                PosOf(d) == CHOOSE p \in 1..Len(olds) : olds[p] = d
            IN MapForm([d \in 1..n |-> IF d \in D THEN 1 ELSE s[PosOf(d)]], LAMBDA j : j)

\* permutations: perm[p] = input dim (1-based) shown at output position p
PermForm(s, perm) ==
  LET os == [p \in 1..Len(s) |-> s[perm[p]]]
      Inv(d) == CHOOSE p \in 1..Len(s) : perm[p] = d
  IN MapForm(os, LAMBDA j : LET o == Unravel(j - 1, os) IN Ravel([d \in 1..Len(s) |-> o[Inv(d)]], s) + 1)

F_transpose(s, d0, d1) ==
  LET n == Len(s) IN
  IF n = 0 \/ ~InRange(d0, n) \/ ~InRange(d1, n) THEN Bad
  ELSE LET a == ND(d0, n) + 1  b == ND(d1, n) + 1 IN
       PermForm(s, [p \in 1..n |-> IF p = a THEN b ELSE IF p = b THEN a ELSE p])

F_movedim(s, src, dst) ==
  LET n == Len(s) IN
  IF n = 0 \/ ~InRange(src, n) \/ ~InRange(dst, n) THEN Bad
  ELSE LET a == ND(src, n) + 1  b == ND(dst, n) + 1
           rest == SelectSeq([d \in 1..n |-> d], LAMBDA d : d # a)
       IN PermForm(s, [p \in 1..n |-> IF p = b THEN a ELSE IF p < b THEN rest[p] ELSE rest[p - 1]])

\* Tensor.unfold(dimension, size, step)
F_unfold(s, dim, size, step) ==
  LET n == Len(s) IN
  IF n = 0 \/ ~InRange(dim, n) \/ size < 1 \/ step < 1 THEN Bad
  ELSE LET a == ND(dim, n) + 1 IN
       IF size > s[a] THEN Bad
       ELSE LET nw == (s[a] - size) \div step + 1
                os == [d \in 1..n |-> IF d = a THEN nw ELSE s[d]] \o <<size>>
            IN MapForm(os, LAMBDA j : LET o == Unravel(j - 1, os) IN
                             Ravel([d \in 1..n |-> IF d = a THEN o[a] * step + o[n + 1] ELSE o[d]], s) + 1)

\* ---------------------------------------------------------------------------
\* concat / stack / unbind
F_concat(shapes, dim) ==
  LET K == Len(shapes)  s1 == shapes[1]  n == Len(s1) IN
  IF n = 0 \/ ~InRange(dim, n) \/ (\E k \in 1..K : Len(shapes[k]) # n) THEN Bad
  ELSE LET a == ND(dim, n) + 1 IN
       IF \E k \in 1..K : \E d \in 1..n : d # a /\ shapes[k][d] # s1[d] THEN Bad
       ELSE LET os == [d \in 1..n |-> IF d = a THEN SumSeq([k \in 1..K |-> shapes[k][a]]) ELSE s1[d]]
                Off(k) == SumSeq([q \in 1..(k - 1) |-> shapes[q][a]])
                Which(x) == CHOOSE k \in 1..K : x >= Off(k) /\ x < Off(k) + shapes[k][a]
            IN PolyForm(os, [j \in 1..Prod(os) |-> LET o == Unravel(j - 1, os)
                                                      k == Which(o[a])
                                                  IN Var(k, Ravel([d \in 1..n |-> IF d = a THEN o[a] - Off(k) ELSE o[d]], shapes[k]) + 1)])

F_stack(shapes, dim) ==
  LET K == Len(shapes)  s1 == shapes[1]  n == Len(s1) + 1 IN
  IF ~InRange(dim, n) \/ (\E k \in 1..K : shapes[k] # s1) THEN Bad
  ELSE LET a == ND(dim, n) + 1
           os == [d \in 1..n |-> IF d = a THEN K ELSE IF d < a THEN s1[d] ELSE s1[d - 1]]
       IN PolyForm(os, [j \in 1..Prod(os) |-> LET o == Unravel(j - 1, os) IN
                          Var(o[a] + 1, Ravel([d \in 1..(n - 1) |-> IF d < a THEN o[d] ELSE o[d + 1]], s1) + 1)])

\* output t (1-based) of unbind(x, dim)
F_unbind(s, dim, t) ==
  LET n == Len(s) IN
  IF n = 0 \/ ~InRange(dim, n) THEN Bad
  ELSE LET a == ND(dim, n) + 1
           os == [d \in 1..(n - 1) |-> IF d < a THEN s[d] ELSE s[d + 1]]
       IN MapForm(os, LAMBDA j : LET o == Unravel(j - 1, os) IN
                        Ravel([d \in 1..n |-> IF d < a THEN o[d] ELSE IF d = a THEN t - 1 ELSE o[d - 1]], s) + 1)

\* ---------------------------------------------------------------------------
\* reductions.  dims = <<>> (None: all) or a sequence of dims (int = 1-sequence)
\* (a 0-d tensor accepts dim 0 / -1, which then reduces over its single element - NumPy and PyTorch agree)
RedDims(s, dims) == IF dims = <<>> \/ Len(s) = 0 THEN {d : d \in 1..Len(s)} ELSE {ND(dims[p], Len(s)) + 1 : p \in 1..Len(dims)}
RedOK(s, dims) ==
  \/ dims = <<>>
  \/ Len(s) = 0 /\ Len(dims) = 1 /\ dims[1] \in {0, 0 - 1}
  \/ /\ \A p \in 1..Len(dims) : InRange(dims[p], Len(s))
     /\ Cardinality(RedDims(s, dims)) = Len(dims)
RedShape(s, D, keep) ==
  IF keep THEN [d \in 1..Len(s) |-> IF d \in D THEN 1 ELSE s[d]]
  ELSE LET ks == SelectSeq([d \in 1..Len(s) |-> d], LAMBDA d : d \notin D) IN [p \in 1..Len(ks) |-> s[ks[p]]]
\* output flat index (1-based) of input flat index i
RedOut(s, D, keep, i) ==
  LET x == Unravel(i - 1, s)
      os == RedShape(s, D, keep)
  IN IF keep THEN Ravel([d \in 1..Len(s) |-> IF d \in D THEN 0 ELSE x[d]], os) + 1
     ELSE LET ks == SelectSeq([d \in 1..Len(s) |-> d], LAMBDA d : d \notin D) IN Ravel([p \in 1..Len(ks) |-> x[ks[p]]], os) + 1
RedGroups(s, D, keep) ==
  LET os == RedShape(s, D, keep) IN
  [j \in 1..Prod(os) |-> SelectSeq([i \in 1..Prod(s) |-> i], LAMBDA i : RedOut(s, D, keep, i) = j)]

F_sum(s, dims, keep) ==
  IF ~RedOK(s, dims) THEN Bad
  ELSE LET D == RedDims(s, dims)  G == RedGroups(s, D, keep) IN
       PolyForm(RedShape(s, D, keep), [j \in 1..Len(G) |-> Flatten([t \in 1..Len(G[j]) |-> Var(1, G[j][t])])])

F_mean(s, dims, keep) ==
  IF ~RedOK(s, dims) THEN Bad
  ELSE LET D == RedDims(s, dims)  G == RedGroups(s, D, keep) IN
       PolyForm(RedShape(s, D, keep), [j \in 1..Len(G) |-> [t \in 1..Len(G[j]) |-> Mono(<<1, Len(G[j])>>, <<<<1, G[j][t], 1>>>>)]])

\* max / min: the value is the extremum of the group; the derivative is any convex combination over the tie set
F_ext(s, dims, keep, isMax) ==
  IF ~RedOK(s, dims) \/ Len(dims) > 1 THEN Bad
  ELSE LET D == RedDims(s, dims) IN
       [ok |-> TRUE, kind |-> "ext", shape |-> RedShape(s, D, keep), grp |-> RedGroups(s, D, keep), mx |-> isMax]

\* named real function applied elementwise (value and derivative are interpreted by the driver from the definition)
F_rterm(s, fn, par) == [ok |-> TRUE, kind |-> "rterm", shape |-> s, fn |-> fn, par |-> par]

\* ---------------------------------------------------------------------------
\* indexing.  items: sequence of records
\*   [t |-> "int", i |-> v] | [t |-> "slice", a |-> opt, b |-> opt, st |-> step] | [t |-> "ell"] | [t |-> "new"] | [t |-> "arr", ix |-> seq]
\* (opt: <<>> for None or <<v>>).  At most one "arr", and then the other items are slices only.
SliceIdx(a, b, st, n) ==
  LET lo == IF st > 0 THEN 0 ELSE 0 - 1
      hi == IF st > 0 THEN n ELSE n - 1
      Clamp(v) == IF v < lo THEN lo ELSE IF v > hi THEN hi ELSE v
      Adj(v) == Clamp(IF v < 0 THEN v + n ELSE v)
      s0 == IF a = <<>> THEN (IF st > 0 THEN 0 ELSE n - 1) ELSE Adj(a[1])
      e0 == IF b = <<>> THEN (IF st > 0 THEN n ELSE 0 - 1) ELSE Adj(b[1])
      cnt == IF st > 0 THEN (IF e0 > s0 THEN (e0 - s0 + st - 1) \div st ELSE 0)
             ELSE (IF s0 > e0 THEN (s0 - e0 - st - 1) \div (0 - st) ELSE 0)
  IN [t \in 1..cnt |-> s0 + (t - 1) * st]

F_getitem(s, items) ==
  LET n == Len(s)
      consuming == SelectSeq(items, LAMBDA it : it.t \in {"int", "slice", "arr"})
      nell == Len(SelectSeq(items, LAMBDA it : it.t = "ell"))
  IN IF nell > 1 \/ Len(consuming) > n THEN Bad
     ELSE
       LET fill == n - Len(consuming)
           full == [t |-> "slice", a |-> <<>>, b |-> <<>>, st |-> 1]
           \* expand the ellipsis (or append full slices) so that exactly n items consume a dim
           Expand(its) == Flatten([p \in 1..Len(its) |-> IF its[p].t = "ell" THEN [q \in 1..fill |-> full] ELSE <<its[p]>>])
           ex == IF nell = 1 THEN Expand(items) ELSE items \o [q \in 1..fill |-> full]
           \* input dim consumed by item p (0 for newaxis)
           DimOf(p) == Len(SelectSeq(SubSeq(ex, 1, p), LAMBDA it : it.t # "new"))
           Sel(p) == LET it == ex[p]  d == DimOf(p) IN
                     CASE it.t = "int"   -> IF InRange(it.i, s[d]) THEN <<ND(it.i, s[d])>> ELSE <<0 - 1>>
                       [] it.t = "slice" -> SliceIdx(it.a, it.b, it.st, s[d])
                       [] it.t = "arr"   -> [q \in 1..Len(it.ix) |-> IF InRange(it.ix[q], s[d]) THEN ND(it.ix[q], s[d]) ELSE 0 - 1]
                       [] it.t = "new"   -> <<0>>
           sels == [p \in 1..Len(ex) |-> Sel(p)]
           bad == \E p \in 1..Len(ex) : \E q \in 1..Len(sels[p]) : sels[p][q] = 0 - 1
           outpos == SelectSeq([p \in 1..Len(ex) |-> p], LAMBDA p : ex[p].t # "int")     \* items that produce an output dim
           os == [r \in 1..Len(outpos) |-> Len(sels[outpos[r]])]
           ItemOfDim(d) == CHOOSE p \in 1..Len(ex) : ex[p].t # "new" /\ DimOf(p) = d
           OutPosOf(p) == CHOOSE r \in 1..Len(outpos) : outpos[r] = p
       IN IF bad THEN Bad
          ELSE MapForm(os, LAMBDA j : LET o == Unravel(j - 1, os) IN
                             Ravel([d \in 1..n |-> LET p == ItemOfDim(d) IN
                                                   IF ex[p].t = "int" THEN sels[p][1] ELSE sels[p][o[OutPosOf(p)] + 1]], s) + 1)
=============================================================================
