-------------------------------- MODULE Optim --------------------------------
(***************************************************************************)
(* SGD / Adam / AdamW as state machines over exact rationals (C08).          *)
(*                                                                           *)
(* Three parameters of two elements each: 1 and 2 are given to the           *)
(* optimizer (2 may be frozen / unfrozen), 3 is NOT given to it and must      *)
(* never change.  Actions: Backward(s) (a real backward pass that adds        *)
(* s * Base[k] to the gradient of every parameter that requires grad),        *)
(* ZeroGrad, Freeze, Unfreeze, Step.  The update rules are the published      *)
(* PyTorch ones: parameters without gradient or not requiring grad are        *)
(* skipped entirely (also by weight decay); the momentum buffer starts as a   *)
(* COPY of the first effective gradient of that parameter; bias correction    *)
(* uses the number of steps that parameter has taken.                         *)
(* Adam needs square roots: Step is enabled only when every root it needs is  *)
(* rational, so TLC explores exactly the exact-arithmetic behaviours.         *)
(***************************************************************************)
EXTENDS QArith, FiniteSets, TLC, Json

CONSTANTS
  Kind,        \* "sgd" | "adam" | "adamw"
  Hypers,      \* set of hyper-parameter records offered to the constructor
  Scales,      \* set of integer scales s offered to Backward(s)
  Variant,     \* SGD with maximize and weight decay: "negate_first" (PyTorch code) | "flip_last" (the pseudo-code cited by synapgrad)
  MaxHist, Record, Acts, MaxLevel

VARIABLES p, g, rg, hyper, buf, m1, m2, steps, hist
vars == <<p, g, rg, hyper, buf, m1, m2, steps, hist>>

K == 1..3
Given == {1, 2}
E == 1..2
P0   == << <<QI(3), QI(0 - 2)>>, <<QI(0 - 1), QI(4)>>, <<QI(5), QI(5)>> >>
Base == << <<QI(2), QI(0 - 2)>>, <<QI(1), QI(0 - 2)>>, <<QI(3), QI(3)>> >>

None == <<>>
VMap1(F(_), a)    == [e \in E |-> F(a[e])]
VMap2(F(_, _), a, b) == [e \in E |-> F(a[e], b[e])]
VScale(c, a) == [e \in E |-> QMul(c, a[e])]
VAdd(a, b)   == [e \in E |-> QAdd(a[e], b[e])]
VSub(a, b)   == [e \in E |-> QSub(a[e], b[e])]
VNeg(a)      == [e \in E |-> QNeg(a[e])]

Obs == [p |-> p, g |-> g, rg |-> rg]
Rec(r) == IF Record THEN Append(hist, r) ELSE hist
CanAct == (Record => Len(hist) < MaxHist) /\ hyper # None

-----------------------------------------------------------------------------
Init ==
  /\ p = P0 /\ g = [k \in K |-> None] /\ rg = [k \in K |-> TRUE]
  /\ hyper = None
  /\ buf = [k \in K |-> None] /\ m1 = [k \in K |-> None] /\ m2 = [k \in K |-> None]
  /\ steps = [k \in K |-> 0]
  /\ hist = <<>>

\* the optimizer is built over parameters 1 and 2; parameter 2 may be frozen at that moment (fine-tuning: it is
\* given to the optimizer while frozen and unfrozen later - from then on it is updated like any other)
Construct(h, fz) ==
  /\ hyper = None /\ h \in Hypers
  /\ fz => "freeze" \in Acts
  /\ hyper' = <<h>>
  /\ rg' = [rg EXCEPT ![2] = ~fz]
  /\ hist' = Rec([a |-> "ctor", kind |-> Kind, h |-> h, fz |-> fz])
  /\ UNCHANGED <<p, g, buf, m1, m2, steps>>

H == hyper[1]

Backward(s) ==
  /\ "bw" \in Acts /\ CanAct /\ s \in Scales
  /\ g' = [k \in K |-> IF rg[k] THEN <<VAdd(IF g[k] = None THEN <<Q0, Q0>> ELSE g[k][1], VScale(QI(s), Base[k]))>> ELSE g[k]]
  /\ hist' = Rec([a |-> "bw", s |-> s])
  /\ UNCHANGED <<p, rg, hyper, buf, m1, m2, steps>>

\* Optimizer.zero_grad(): every parameter given to the optimizer
ZeroGrad ==
  /\ "zero" \in Acts /\ CanAct
  /\ g' = [k \in K |-> IF k \in Given THEN <<<<Q0, Q0>>>> ELSE g[k]]
  /\ hist' = Rec([a |-> "zero_grad"])
  /\ UNCHANGED <<p, rg, hyper, buf, m1, m2, steps>>

SetFrozen(k, fr) ==
  /\ "freeze" \in Acts /\ CanAct /\ k = 2 /\ rg[k] = fr
  /\ rg' = [rg EXCEPT ![k] = ~fr]
  /\ hist' = Rec([a |-> IF fr THEN "freeze" ELSE "unfreeze", k |-> k])
  /\ UNCHANGED <<p, g, hyper, buf, m1, m2, steps>>

Active(k) == k \in Given /\ rg[k] /\ g[k] # None

\* ---- SGD --------------------------------------------------------------------
SgdEff(k) ==       \* effective gradient of parameter k before momentum
  LET gr == g[k][1]
      g0 == IF H.maximize /\ Variant = "negate_first" THEN VNeg(gr) ELSE gr
  IN IF H.wd[1] # 0 THEN VAdd(g0, VScale(H.wd, p[k])) ELSE g0
SgdBuf(k) ==
  IF H.mom[1] = 0 THEN None
  ELSE IF buf[k] = None THEN <<SgdEff(k)>>
  ELSE <<VAdd(VScale(H.mom, buf[k][1]), VScale(QSub(Q1, H.damp), SgdEff(k)))>>
SgdDir(k) ==
  IF H.mom[1] = 0 THEN SgdEff(k)
  ELSE IF H.nesterov THEN VAdd(SgdEff(k), VScale(H.mom, SgdBuf(k)[1])) ELSE SgdBuf(k)[1]
SgdNew(k) ==
  IF H.maximize /\ Variant = "flip_last" THEN VAdd(p[k], VScale(H.lr, SgdDir(k)))
  ELSE VSub(p[k], VScale(H.lr, SgdDir(k)))

\* ---- Adam / AdamW -------------------------------------------------------------
AdamG(k) ==
  LET g0 == IF H.maximize THEN VNeg(g[k][1]) ELSE g[k][1]
  IN IF Kind = "adam" /\ H.wd[1] # 0 THEN VAdd(g0, VScale(H.wd, p[k])) ELSE g0
AdamM1(k) == VAdd(VScale(H.b1, IF m1[k] = None THEN <<Q0, Q0>> ELSE m1[k][1]), VScale(QSub(Q1, H.b1), AdamG(k)))
AdamM2(k) == VAdd(VScale(H.b2, IF m2[k] = None THEN <<Q0, Q0>> ELSE m2[k][1]),
                  VScale(QSub(Q1, H.b2), [e \in E |-> QMul(AdamG(k)[e], AdamG(k)[e])]))
AdamVhat(k) == LET t == steps[k] + 1 IN VScale(QInv(QSub(Q1, QPow(H.b2, t))), AdamM2(k))
AdamMhat(k) == LET t == steps[k] + 1 IN VScale(QInv(QSub(Q1, QPow(H.b1, t))), AdamM1(k))
AdamRootsOK(k) == \A e \in E : QSqrt(AdamVhat(k)[e])[1]
AdamNew(k) ==
  LET pdec == IF Kind = "adamw" THEN VScale(QSub(Q1, QMul(H.lr, H.wd)), p[k]) ELSE p[k]      \* decoupled decay
      upd == [e \in E |-> QDiv(QMul(H.lr, AdamMhat(k)[e]), QAdd(QSqrt(AdamVhat(k)[e])[2], H.eps))]
  IN VSub(pdec, upd)

Small(v) == \A e \in E : QAbs(v[e][1]) < 8000 /\ v[e][2] < 8000
Tiny(v) == \A e \in E : QAbs(v[e][1]) < 256 /\ v[e][2] < 256

Step ==
  /\ "step" \in Acts /\ CanAct
  /\ IF Kind = "sgd"
     THEN /\ \A k \in K : Active(k) => Small(SgdNew(k)) /\ (H.mom[1] # 0 => Small(SgdBuf(k)[1]))
          /\ p' = [k \in K |-> IF Active(k) THEN SgdNew(k) ELSE p[k]]
          /\ buf' = [k \in K |-> IF Active(k) THEN SgdBuf(k) ELSE buf[k]]
          /\ UNCHANGED <<m1, m2>>
     ELSE \* (guards in this order: TLC integers are 32-bit, each stage is only evaluated on small inputs)
          /\ \A k \in K : Active(k) => Tiny(AdamG(k))
          /\ \A k \in K : Active(k) => Small(AdamM2(k)) /\ Small(AdamM1(k))
          /\ \A k \in K : Active(k) => AdamRootsOK(k)
          \* (eps = 0 with a zero second moment is 0/0: outside the update rule)
          /\ \A k \in K : Active(k) => \A e \in E : QAdd(QSqrt(AdamVhat(k)[e])[2], H.eps)[1] # 0
          /\ \A k \in K : Active(k) => Small(AdamNew(k))
          /\ p' = [k \in K |-> IF Active(k) THEN AdamNew(k) ELSE p[k]]
          /\ m1' = [k \in K |-> IF Active(k) THEN <<AdamM1(k)>> ELSE m1[k]]
          /\ m2' = [k \in K |-> IF Active(k) THEN <<AdamM2(k)>> ELSE m2[k]]
          /\ UNCHANGED buf
  /\ steps' = [k \in K |-> IF Active(k) THEN steps[k] + 1 ELSE steps[k]]
  /\ hist' = Rec([a |-> "step"])
  /\ UNCHANGED <<g, rg, hyper>>

Next ==
  \/ \E h \in Hypers, fz \in BOOLEAN : Construct(h, fz)
  \/ \E s \in Scales : Backward(s)
  \/ ZeroGrad \/ Step
  \/ \E fr \in BOOLEAN : SetFrozen(2, fr)

-----------------------------------------------------------------------------
\* parameters not given to the optimizer, frozen parameters and parameters without gradient never move
OnlyActiveMove == [][\A k \in K : (k \notin Given \/ ~rg[k] \/ g[k] = None) => p'[k] = p[k]]_vars
\* optimizer state is never changed by gradient accumulation or resets
StateIndependent == [][(g' # g) => (buf' = buf /\ m1' = m1 /\ m2' = m2 /\ p' = p)]_vars
\* gradients are only changed by Backward / ZeroGrad, never by Step
StepKeepsGrads == [][(p' # p) => g' = g]_vars

LevelBound == TLCGet("level") <= MaxLevel
Emit == Record => PrintT(ToJson([hist |-> hist, obs |-> Obs]))
=============================================================================
