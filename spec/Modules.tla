------------------------------- MODULE Modules -------------------------------
(***************************************************************************)
(* Module trees of synapgrad.nn (C12, Sequential part of C14).               *)
(*                                                                           *)
(* state   : per module the ordered registries of submodules and parameters, *)
(*           the training flag; per parameter size, requires_grad, gradient  *)
(* actions : attribute assignment (module / parameter / None / other value), *)
(*           register_module / register_parameter, Sequential(list | dict),  *)
(*           train / eval / freeze / unfreeze / zero_grad on any node,        *)
(*           calling a Sequential.                                            *)
(* Leaf modules are tagged affine maps x -> a*x + b (non-commuting), so the  *)
(* order in which a Sequential applies its submodules is observable.         *)
(***************************************************************************)
EXTENDS Integers, Sequences, FiniteSets, TLC, Json

CONSTANTS
  NMods,      \* number of pre-built, initially empty container modules (ids 1..NMods); leaf modules follow
  NLeaf,      \* number of pre-built affine leaf modules
  ParSizes,   \* sequence: size of parameter p
  ParRg,      \* sequence: initial requires_grad of parameter p
  Names,      \* attribute names offered to __setattr__
  MaxSeq,     \* bound on Sequential modules created
  MaxHist, Record, Acts,
  InitTree    \* "empty": the containers start empty; "block": container 1 owns parameter 1 ("w") and child container 2 ("fc"), which owns parameter 2 ("w")

VARIABLES mods, prg, pgrad, nseq, last, hist
vars == <<mods, prg, pgrad, nseq, last, hist>>

NP == Len(ParSizes)
Params == 1..NP
Mods == 1..Len(mods)
IsLeafMod(m) == mods[m].kind = "aff"

SeqHas(s, x) == \E i \in 1..Len(s) : s[i] = x
Names2(reg) == [i \in 1..Len(reg) |-> reg[i][1]]
Remove(reg, name) == SelectSeq(reg, LAMBDA e : e[1] # name)
\* assigning an existing name keeps its position (ordered dict), a new name is appended
Put(reg, name, v) ==
  IF \E i \in 1..Len(reg) : reg[i][1] = name
  THEN [i \in 1..Len(reg) |-> IF reg[i][1] = name THEN <<name, v>> ELSE reg[i]]
  ELSE Append(reg, <<name, v>>)

Subs(m) == [i \in 1..Len(mods[m].subs) |-> mods[m].subs[i][2]]          \* Module.submodules(): direct children, registration order

RECURSIVE ReachM(_, _)
ReachM(m, seen) ==        \* set of modules reachable from m (m included)
  IF m \in seen THEN seen
  ELSE LET s1 == seen \cup {m}
           RECURSIVE Go(_, _)
           Go(i, acc) == IF i > Len(mods[m].subs) THEN acc ELSE Go(i + 1, ReachM(mods[m].subs[i][2], acc))
       IN Go(1, s1)
Reach(m) == ReachM(m, {})

RECURSIVE Flatten(_)
Flatten(ss) == IF ss = <<>> THEN <<>> ELSE ss[1] \o Flatten(Tail(ss))

\* own parameters in registration order, then each submodule depth-first (tree walk, may repeat)
RECURSIVE ParamWalk(_)
ParamWalk(m) ==
  [i \in 1..Len(mods[m].pars) |-> mods[m].pars[i][2]] \o
  Flatten([i \in 1..Len(mods[m].subs) |-> ParamWalk(mods[m].subs[i][2])])

RECURSIVE Dedup(_, _)
Dedup(s, seen) == IF s = <<>> THEN <<>>
                  ELSE IF s[1] \in seen THEN Dedup(Tail(s), seen) ELSE <<s[1]>> \o Dedup(Tail(s), seen \cup {s[1]})

\* Module.parameters(): every reachable parameter exactly once, first occurrence order
Parameters(m) == Dedup(ParamWalk(m), {})
PSet(m) == {Parameters(m)[i] : i \in 1..Len(Parameters(m))}

RECURSIVE SumSizes(_)
SumSizes(ps) == IF ps = <<>> THEN 0 ELSE ParSizes[ps[1]] + SumSizes(Tail(ps))
NumParams(m) ==
  LET ps == Parameters(m) IN
  <<SumSizes(ps), SumSizes(SelectSeq(ps, LAMBDA p : prg[p])), SumSizes(SelectSeq(ps, LAMBDA p : ~prg[p]))>>

\* value of applying module m to the integer x (leaf: a*x + b; Sequential: composition in registration order)
RECURSIVE ApplyM(_, _)
ApplyM(m, x) ==
  IF mods[m].kind = "aff" THEN mods[m].a * x + mods[m].b
  ELSE LET RECURSIVE Go(_, _)
           Go(i, v) == IF i > Len(mods[m].subs) THEN v ELSE Go(i + 1, ApplyM(mods[m].subs[i][2], v))
       IN Go(1, x)
Callable(m) == \A c \in Reach(m) : mods[c].kind \in {"aff", "seq"} /\ (mods[c].kind = "seq" => Len(mods[c].subs) > 0)

Obs ==
  [mods |-> [m \in Mods |-> [pars |-> Parameters(m), subs |-> Subs(m), np |-> NumParams(m), tr |-> mods[m].training,
                             call |-> IF Callable(m) THEN <<ApplyM(m, 3)>> ELSE <<>>]],
   prg |-> prg, pgrad |-> pgrad]

Rec(r) == IF Record THEN Append(hist, r) ELSE hist
CanAct == Record => Len(hist) < MaxHist

-----------------------------------------------------------------------------
Box0 == [kind |-> "box", subs |-> <<>>, pars |-> <<>>, training |-> TRUE, a |-> 0, b |-> 0]
Init ==
  /\ mods = [m \in 1..(NMods + NLeaf) |->
               IF m <= NMods
               THEN (IF InitTree = "block" /\ m = 1 THEN [Box0 EXCEPT !.pars = <<<<"w", 1>>>>, !.subs = <<<<"fc", 2>>>>]
                     ELSE IF InitTree = "block" /\ m = 2 THEN [Box0 EXCEPT !.pars = <<<<"w", 2>>>>]
                     ELSE Box0)
               ELSE [Box0 EXCEPT !.kind = "aff", !.a = m - NMods + 1, !.b = m - NMods]]
  /\ prg = ParRg
  /\ pgrad = [p \in Params |-> "none"]
  /\ nseq = 0 /\ last = "" /\ hist = <<>>

\* would registering c under m create a cycle?
Cyclic(m, c) == m \in Reach(c)

\* x: <<"mod", c>> | <<"par", p>> | <<"none", 0>> | <<"other", 0>>
SetAttr(m, name, x, via) ==
  /\ "setattr" \in Acts /\ CanAct
  /\ m \in Mods /\ ~IsLeafMod(m) /\ mods[m].kind = "box" /\ name \in Names
  /\ via \in {"attr", "register"}
  /\ (via = "register" => x[1] \in {"mod", "par"})
  /\ (x[1] = "mod" => x[2] \in Mods /\ ~Cyclic(m, x[2]))
  /\ (x[1] = "par" => x[2] \in Params)
  /\ LET s0 == Remove(mods[m].subs, name)
         p0 == Remove(mods[m].pars, name)
         \* replacing an attribute replaces its registration, whatever kind it had before
         s1 == IF x[1] = "mod" THEN Put(mods[m].subs, name, x[2]) ELSE s0
         p1 == IF x[1] = "par" THEN Put(mods[m].pars, name, x[2]) ELSE p0
     IN mods' = [mods EXCEPT ![m].subs = s1, ![m].pars = p1]
  /\ UNCHANGED <<prg, pgrad, nseq>>
  /\ last' = "setattr"
  /\ hist' = Rec([a |-> "setattr", m |-> m, name |-> name, x |-> x, via |-> via])

\* Sequential(c1, c2) / Sequential(OrderedDict([("x", c1), ("y", c2)]))
NewSeq(c1, c2, named) ==
  /\ "seq" \in Acts /\ CanAct /\ nseq < MaxSeq
  /\ c1 \in Mods /\ c2 \in Mods
  /\ mods' = Append(mods, [Box0 EXCEPT !.kind = "seq",
                                       !.subs = IF named THEN <<<<"y", c1>>, <<"x", c2>>>> ELSE <<<<"0", c1>>, <<"1", c2>>>>])
  /\ nseq' = nseq + 1
  /\ UNCHANGED <<prg, pgrad>>
  /\ last' = "seq"
  /\ hist' = Rec([a |-> "seq", c1 |-> c1, c2 |-> c2, named |-> named])

SetMode(m, tr) ==
  /\ "mode" \in Acts /\ CanAct /\ m \in Mods
  /\ mods' = [c \in Mods |-> IF c \in Reach(m) THEN [mods[c] EXCEPT !.training = tr] ELSE mods[c]]
  /\ UNCHANGED <<prg, pgrad, nseq>>
  /\ last' = "mode"
  /\ hist' = Rec([a |-> IF tr THEN "train" ELSE "eval", m |-> m])

SetFrozen(m, fr) ==
  /\ "freeze" \in Acts /\ CanAct /\ m \in Mods
  /\ prg' = [p \in Params |-> IF p \in PSet(m) THEN ~fr ELSE prg[p]]
  /\ UNCHANGED <<mods, pgrad, nseq>>
  /\ last' = "freeze"
  /\ hist' = Rec([a |-> IF fr THEN "freeze" ELSE "unfreeze", m |-> m])

\* a gradient appears on parameter p (a backward pass somewhere)
GradArrives(p) ==
  /\ "grad" \in Acts /\ CanAct /\ p \in Params /\ prg[p] /\ pgrad[p] # "val"
  /\ pgrad' = [pgrad EXCEPT ![p] = "val"]
  /\ UNCHANGED <<mods, prg, nseq>>
  /\ last' = "grad"
  /\ hist' = Rec([a |-> "grad", p |-> p])

ZeroGrad(m) ==
  /\ "zero" \in Acts /\ CanAct /\ m \in Mods
  \* every reachable parameter is reset: the trainable ones, and frozen ones that still hold a gradient from before
  \* they were frozen (a frozen parameter that never had a gradient does not acquire one: C07)
  /\ pgrad' = [p \in Params |-> IF p \in PSet(m) /\ (prg[p] \/ pgrad[p] # "none") THEN "zero" ELSE pgrad[p]]
  /\ UNCHANGED <<mods, prg, nseq>>
  /\ last' = "zero"
  /\ hist' = Rec([a |-> "zero_grad", m |-> m])

Next ==
  \/ \E m \in Mods, name \in Names, via \in {"attr", "register"} :
        \/ \E c \in Mods : SetAttr(m, name, <<"mod", c>>, via)
        \/ \E p \in Params : SetAttr(m, name, <<"par", p>>, via)
        \/ SetAttr(m, name, <<"none", 0>>, via) \/ SetAttr(m, name, <<"other", 0>>, via)
  \/ \E c1 \in Mods, c2 \in Mods, named \in BOOLEAN : NewSeq(c1, c2, named)
  \/ \E m \in Mods, b \in BOOLEAN : SetMode(m, b) \/ SetFrozen(m, b)
  \/ \E p \in Params : GradArrives(p)
  \/ \E m \in Mods : ZeroGrad(m)

-----------------------------------------------------------------------------
Acyclic == \A m \in Mods : \A i \in 1..Len(mods[m].subs) : m \notin Reach(mods[m].subs[i][2])

\* parameters(): no duplicates, and exactly the parameters registered on some reachable module
NoDupComplete ==
  \A m \in Mods :
    LET ps == Parameters(m) IN
      /\ \A i, j \in 1..Len(ps) : i # j => ps[i] # ps[j]
      /\ PSet(m) = UNION {{mods[c].pars[i][2] : i \in 1..Len(mods[c].pars)} : c \in Reach(m)}

CountsAddUp == \A m \in Mods : NumParams(m)[1] = NumParams(m)[2] + NumParams(m)[3]

\* one name registers at most one thing on a module
OneRegistrationPerName ==
  \A m \in Mods : /\ \A i, j \in 1..Len(mods[m].subs) : i # j => mods[m].subs[i][1] # mods[m].subs[j][1]
                  /\ \A i, j \in 1..Len(mods[m].pars) : i # j => mods[m].pars[i][1] # mods[m].pars[j][1]
                  /\ \A i \in 1..Len(mods[m].subs), j \in 1..Len(mods[m].pars) : mods[m].subs[i][1] # mods[m].pars[j][1]

\* train()/eval() reach every descendant and nothing else
ModePropagates ==
  [][last' = "mode" =>
       \E m \in Mods : /\ \A c \in Reach(m) : mods'[c].training = mods'[m].training
                       /\ \A c \in Mods \ Reach(m) : mods'[c].training = mods[c].training]_vars

\* freeze/unfreeze/zero_grad act on exactly the parameters of the subtree
FreezeExact ==
  [][last' = "freeze" => \E m \in Mods : \A p \in Params : p \notin PSet(m) => prg'[p] = prg[p]]_vars

Emit == Record => PrintT(ToJson([hist |-> hist, obs |-> Obs]))
=============================================================================
