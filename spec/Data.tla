-------------------------------- MODULE Data --------------------------------
(***************************************************************************)
(* Dataset utilities (C18): split_dataset, DataLoader, one_hot_encode.       *)
(*   Family "split"  : case machine over (n, test fraction, validation        *)
(*                     fraction | None, shuffle): floor-rule sizes            *)
(*   Family "onehot" : case machine over label vectors                        *)
(*   Family "loader" : the iteration protocol of DataLoader as a state        *)
(*                     machine (iter / next / len / getitem), Record mode      *)
(***************************************************************************)
EXTENDS Integers, Sequences, FiniteSets, TLC, Json

CONSTANTS Family, MaxN, Fracs, Labels, MaxLabLen, BatchSizes, WithTransform, MaxHist, Record

VARIABLES case, cursor, delivered, last, hist
vars == <<case, cursor, delivered, last, hist>>

\* floor(num/den * n) for a fraction <<num, den>>
FloorMul(f, n) == (f[1] * n) \div f[2]

SplitCases == {[n |-> n, ts |-> ts, vs |-> vs, shuffle |-> sh] :
                 n \in 0..MaxN, ts \in Fracs, vs \in {<<>>} \cup {<<f>> : f \in Fracs}, sh \in BOOLEAN}
SplitObs(c) ==
  LET nTest == FloorMul(c.ts, c.n)
      rest  == c.n - nTest
      nVal  == IF c.vs = <<>> THEN 0 ELSE FloorMul(c.vs[1], rest)
  IN [kind |-> "split", n |-> c.n, ts |-> c.ts, vs |-> c.vs, shuffle |-> c.shuffle,
      ntest |-> nTest, nval |-> nVal, ntrain |-> rest - nVal, hasval |-> (c.vs # <<>>)]

\* one-hot: index of each label among the sorted distinct labels
LabelSeqs == UNION {[1..k -> Labels] : k \in 1..MaxLabLen}
Distinct(s) == {s[i] : i \in 1..Len(s)}
RankIn(S, x) == Cardinality({y \in S : y < x})          \* position of x among the sorted distinct labels (0-based)
OneHotObs(s) ==
  LET D == Distinct(s) IN
  [kind |-> "onehot", labels |-> s, width |-> Cardinality(D),
   rows |-> [i \in 1..Len(s) |-> [j \in 1..Cardinality(D) |-> IF j - 1 = RankIn(D, s[i]) THEN 1 ELSE 0]]]

\* ---- loader state machine --------------------------------------------------------
LoaderCases == {[n |-> n, bs |-> bs] : n \in 0..MaxN, bs \in BatchSizes}
NumBatches(c) == c.n \div c.bs
BatchRange(c, i) == <<i * c.bs, (i + 1) * c.bs>>          \* [start, end) of batch i (0-based)
Rec(r) == IF Record THEN Append(hist, r) ELSE hist
CanAct == Record => Len(hist) < MaxHist

Init ==
  /\ case \in (CASE Family = "split" -> SplitCases [] Family = "onehot" -> LabelSeqs [] Family = "loader" -> LoaderCases)
  /\ cursor = <<>>            \* no iteration in progress
  /\ delivered = 0            \* transform applications so far (exactly one per delivered batch)
  /\ last = [t |-> "none"]
  /\ hist = <<>>

Iter ==
  /\ Family = "loader" /\ CanAct
  /\ cursor' = <<0>> /\ last' = [t |-> "iter"]            \* (re)starts from the first batch
  /\ UNCHANGED <<case, delivered>>
  /\ hist' = Rec([a |-> "iter"])

NextBatch ==
  /\ Family = "loader" /\ CanAct /\ cursor # <<>>
  /\ IF cursor[1] < NumBatches(case)
     THEN /\ last' = [t |-> "batch", r |-> BatchRange(case, cursor[1])]
          /\ cursor' = <<cursor[1] + 1>>
          /\ delivered' = delivered + 1
     ELSE /\ last' = [t |-> "stop"] /\ UNCHANGED <<cursor, delivered>>
  /\ UNCHANGED case
  /\ hist' = Rec([a |-> "next"])

LenCall ==
  /\ Family = "loader" /\ CanAct
  /\ last' = [t |-> "len", v |-> NumBatches(case)]
  /\ UNCHANGED <<case, cursor, delivered>>
  /\ hist' = Rec([a |-> "len"])

GetItem(i) ==
  /\ Family = "loader" /\ CanAct /\ i \in 0..(NumBatches(case) - 1)
  /\ last' = [t |-> "batch", r |-> BatchRange(case, i)]
  /\ delivered' = delivered + 1
  /\ UNCHANGED <<case, cursor>>
  /\ hist' = Rec([a |-> "getitem", i |-> i])

Next == Iter \/ NextBatch \/ LenCall \/ \E i \in 0..MaxN : GetItem(i)

\* batches are consecutive, aligned, of exactly batch_size samples, inside the data
BatchesInside == last.t = "batch" => (last.r[2] - last.r[1] = case.bs /\ last.r[1] >= 0 /\ last.r[2] <= case.n)
CursorBounded == cursor # <<>> => cursor[1] <= NumBatches(case)
SplitSizesAddUp == Family = "split" => LET o == SplitObs(case) IN o.ntest + o.nval + o.ntrain = case.n /\ o.ntrain >= 0

Emit ==
  CASE Family = "split"  -> PrintT(ToJson(SplitObs(case)))
    [] Family = "onehot" -> PrintT(ToJson(OneHotObs(case)))
    [] Family = "loader" -> (Record => PrintT(ToJson([case |-> case, hist |-> hist, obs |-> [last |-> last, delivered |-> delivered]])))
=============================================================================
