------------------------------ MODULE TapeTrace ------------------------------
(***************************************************************************)
(* Trace specification for Tape.tla: every recorded event must be enabled   *)
(* as the corresponding action of Tape (code -> spec conformance).          *)
(* The trace file is a JSON sequence of traces, each a sequence of events   *)
(*   new(id, ch, rg, gm)  fn(id)  setrg(id, b)  retain(id)                   *)
(*   bw_begin(root)  bw_fn(id)  bw_end(withgrad, rm)  bw_refused(root)       *)
(***************************************************************************)
EXTENDS Tape, Json, IOUtils

CONSTANT Verbose        \* TRUE: report every state (used to diagnose a rejected trace)

Traces == JsonDeserialize(IOEnv.TRACE_FILE)

VARIABLES tid, l
tvars == <<nodes, sweep, tid, l>>

Ev == Traces[tid][l]
IsEvent(e) == l <= Len(Traces[tid]) /\ Ev.e = e /\ l' = l + 1 /\ tid' = tid
SetOf(seq) == {seq[i] : i \in 1..Len(seq)}

TraceInit == tid \in 1..Len(Traces) /\ l = 1 /\ TapeInit

TraceNext ==
  \/ IsEvent("new")      /\ New(Ev.id, SetOf(Ev.ch), Ev.rg, Ev.gm)
  \/ IsEvent("fn")       /\ AttachFn(Ev.id)
  \/ IsEvent("setrg")    /\ SetRG(Ev.id, Ev.b)
  \/ IsEvent("retain")   /\ Retain(Ev.id)
  \/ IsEvent("bw_begin") /\ BackwardBegin(Ev.root)
  \/ IsEvent("bw_fn")    /\ RunFn(Ev.id)
  \/ IsEvent("bw_end")   /\ BackwardEnd(SetOf(Ev.withgrad), Ev.rm)
  \/ IsEvent("bw_refused") /\ Ev.root \in Ids /\ ~nodes[Ev.root].rg /\ sweep = <<>> /\ UNCHANGED <<nodes, sweep>>

TraceSpec == TraceInit /\ [][TraceNext]_tvars

Done == l = Len(Traces[tid]) + 1
Progress == (Verbose \/ Done) => PrintT(ToJson([tid |-> tid, l |-> l, done |-> Done]))
=============================================================================
