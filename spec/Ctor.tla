-------------------------------- MODULE Ctor --------------------------------
(***************************************************************************)
(* Tensor constructors (C05, C10): shape for the three shape-argument forms *)
(* (varargs, tuple, list), dtype (float32 unless one is given; randint is    *)
(* integer), the requires_grad flag, and the values where they are           *)
(* deterministic (ones, zeros, *_like, arange, eye, tensor(data)).           *)
(***************************************************************************)
EXTENDS Integers, Sequences, FiniteSets, TLC, Json

CONSTANTS Sizes, MaxRank

VARIABLES case
vars == <<case>>

RECURSIVE Prod(_)
Prod(s) == IF s = <<>> THEN 1 ELSE s[1] * Prod(Tail(s))
Shapes == UNION {[1..q -> Sizes] : q \in 1..MaxRank}
DTs == {"none", "f32", "f64"}
ResDT(dt) == IF dt = "none" THEN "f32" ELSE dt

Cases ==
  {[fn |-> fn, form |-> fm, shape |-> s, dt |-> dt, rg |-> rg] :
      fn \in {"empty", "ones", "zeros", "rand", "randn"}, fm \in {"varargs", "tuple", "list"}, s \in Shapes, dt \in DTs, rg \in BOOLEAN}
  \cup {[fn |-> fn, form |-> "like", shape |-> s, dt |-> dt, rg |-> rg] : fn \in {"ones_like", "zeros_like"}, s \in Shapes, dt \in DTs, rg \in BOOLEAN}
  \cup {[fn |-> "arange", form |-> "interval", shape |-> <<>>, iv |-> iv, dt |-> dt, rg |-> FALSE] :
          iv \in {<<5>>, <<2, 7>>, <<1, 10, 3>>, <<0, 0 - 6, 0 - 2>>}, dt \in DTs}
  \cup {[fn |-> "eye", form |-> "dim", shape |-> <<n, n>>, dt |-> dt, rg |-> rg] : n \in 1..3, dt \in DTs, rg \in BOOLEAN}
  \cup {[fn |-> "normal", form |-> "varargs", shape |-> s, dt |-> dt, rg |-> FALSE] : s \in Shapes, dt \in DTs}
  \cup {[fn |-> "randint", form |-> "tuple", shape |-> s, dt |-> "none", rg |-> rg] : s \in Shapes, rg \in BOOLEAN}
  \cup {[fn |-> "tensor", form |-> "data", shape |-> s, dt |-> dt, rg |-> rg] : s \in Shapes, dt \in DTs, rg \in BOOLEAN}

\* arange(start, stop, step) as a sequence
RECURSIVE Range(_, _, _)
Range(a, b, st) == IF (st > 0 /\ a >= b) \/ (st < 0 /\ a <= b) THEN <<>> ELSE <<a>> \o Range(a + st, b, st)
ArangeOf(iv) == IF Len(iv) = 1 THEN Range(0, iv[1], 1) ELSE IF Len(iv) = 2 THEN Range(iv[1], iv[2], 1) ELSE Range(iv[1], iv[2], iv[3])

Expect(c) ==
  LET n == Prod(c.shape) IN
  CASE c.fn \in {"ones", "ones_like"} -> [shape |-> c.shape, dt |-> ResDT(c.dt), vals |-> <<[i \in 1..n |-> 1]>>, err |-> ""]
    [] c.fn \in {"zeros", "zeros_like"} -> [shape |-> c.shape, dt |-> ResDT(c.dt), vals |-> <<[i \in 1..n |-> 0]>>, err |-> ""]
    [] c.fn \in {"empty", "rand", "randn", "normal"} -> [shape |-> c.shape, dt |-> ResDT(c.dt), vals |-> <<>>, err |-> ""]
    [] c.fn = "arange" -> [shape |-> <<Len(ArangeOf(c.iv))>>, dt |-> ResDT(c.dt), vals |-> <<ArangeOf(c.iv)>>, err |-> ""]
    [] c.fn = "eye" -> [shape |-> c.shape, dt |-> ResDT(c.dt), err |-> "",
                        vals |-> <<[i \in 1..n |-> IF (i - 1) \div c.shape[1] = (i - 1) % c.shape[1] THEN 1 ELSE 0]>>]
    \* integer tensors cannot require grad
    [] c.fn = "randint" -> [shape |-> c.shape, dt |-> "int", vals |-> <<>>, err |-> IF c.rg THEN "RuntimeError" ELSE ""]
    [] c.fn = "tensor" -> [shape |-> c.shape, dt |-> ResDT(c.dt), vals |-> <<[i \in 1..n |-> IF i % 2 = 0 THEN 0 - i ELSE i]>>, err |-> ""]

Init == case \in Cases
Next == FALSE /\ UNCHANGED vars
ShapesPositive == Expect(case).err = "" => \A d \in 1..Len(Expect(case).shape) : Expect(case).shape[d] >= 0
Emit == PrintT(ToJson([c |-> case, e |-> Expect(case)]))
=============================================================================
