------------------------------- MODULE ConvGeom -------------------------------
(***************************************************************************)
(* Window geometry of synapgrad's convolution / pooling / unfold / fold      *)
(* (C02, C06, C14, C16).  One-dimensional maps                               *)
(*     OutLen(L, k, s, p, d) = floor((L + 2p - d(k-1) - 1) / s) + 1           *)
(*     Src(o, j)             = o*s + j*d - p     (a pixel if in 0..L-1, else  *)
(*                                                padding)                    *)
(* and 2-D maps as products of two 1-D maps.  Everything else is derived:     *)
(* im2col in both layouts, col2im DEFINED AS THE TRANSPOSE of im2col's        *)
(* incidence relation (not as a second algorithm), convolution as a bilinear  *)
(* form over windows, pooling as max / mean over windows.                     *)
(* A geometry g is a record [k, s, p, d] of per-axis sequences (1 or 2 axes). *)
(***************************************************************************)
EXTENDS TensorAlg

OutLen(L, k, s, p, d) == LET num == L + 2 * p - d * (k - 1) - 1 IN IF num < 0 THEN 0 ELSE num \div s + 1
SrcPos(o, j, s, p, d) == o * s + j * d - p
InsideL(x, L) == x >= 0 /\ x < L

NAx(g) == Len(g.k)
OutSizes(sp, g) == [a \in 1..NAx(g) |-> OutLen(sp[a], g.k[a], g.s[a], g.p[a], g.d[a])]
GeomOK(sp, g) == \A a \in 1..NAx(g) : g.k[a] >= 1 /\ g.s[a] >= 1 /\ g.d[a] >= 1 /\ g.p[a] >= 0 /\ OutSizes(sp, g)[a] >= 1

\* source pixel (multi-index over the spatial axes) of window position o, kernel offset j; <<>> when it is padding
WinSrc(sp, g, o, j) ==
  LET pos == [a \in 1..NAx(g) |-> SrcPos(o[a], j[a], g.s[a], g.p[a], g.d[a])]
  IN IF \A a \in 1..NAx(g) : InsideL(pos[a], sp[a]) THEN <<pos>> ELSE <<>>

\* ---------------------------------------------------------------------------
\* unfold (im2col).  x: (N, C, *sp).  layout "unfold": (N, C*K, L);  layout "cols": (C*K, L*N) with column l*N + n
KProd(g) == Prod(g.k)
F_im2col(xs, g, layout, padv) ==
  LET na == NAx(g)  N == xs[1]  C == xs[2]  sp == SubSeq(xs, 3, Len(xs)) IN
  IF Len(xs) # na + 2 \/ ~GeomOK(sp, g) THEN Bad
  ELSE
    LET osz == OutSizes(sp, g)  L == Prod(osz)  K == KProd(g)
        os == IF layout = "unfold" THEN <<N, C * K, L>> ELSE <<C * K, L * N>>
        El(n, row, l) ==
          LET c == row \div K
              j == Unravel(row % K, g.k)
              o == Unravel(l, osz)
              src == WinSrc(sp, g, o, j)
          IN IF src = <<>> THEN Const(padv) ELSE Var(1, Ravel(<<n, c>> \o src[1], xs) + 1)
    IN PolyForm(os, [q \in 1..Prod(os) |->
                       LET ix == Unravel(q - 1, os) IN
                       IF layout = "unfold" THEN El(ix[1], ix[2], ix[3]) ELSE El(ix[2] % N, ix[1], ix[2] \div N)])

\* fold (col2im): the transpose of the incidence relation of im2col (padding positions are dropped)
\* y: (N, C*K, L) -> (N, C, *sp)
F_col2im(ys, sp, g, layout) ==
  LET na == NAx(g)  K == KProd(g) IN
  IF ~GeomOK(sp, g) THEN Bad
  ELSE
    LET osz == OutSizes(sp, g)  L == Prod(osz)
        okshape == IF layout = "unfold" THEN Len(ys) = 3 /\ ys[2] % K = 0 /\ ys[3] = L
                   ELSE Len(ys) = 2 /\ ys[1] % K = 0 /\ ys[2] % L = 0
    IN IF ~okshape THEN Bad
       ELSE
         LET N == IF layout = "unfold" THEN ys[1] ELSE ys[2] \div L
             C == (IF layout = "unfold" THEN ys[2] ELSE ys[1]) \div K
             xs == <<N, C>> \o sp
             YIdx(n, row, l) == IF layout = "unfold" THEN Ravel(<<n, row, l>>, ys) + 1 ELSE Ravel(<<row, l * N + n>>, ys) + 1
             \* every (row, l) whose source is the pixel px of channel c
             Hits(c, px) == {<<jj, l>> \in (0..(K - 1)) \X (0..(L - 1)) :
                               WinSrc(sp, g, Unravel(l, osz), Unravel(jj, g.k)) = <<px>>}
         IN PolyForm(xs, [q \in 1..Prod(xs) |->
                            LET ix == Unravel(q - 1, xs)
                                hs == Hits(ix[2], SubSeq(ix, 3, Len(ix)))
                                RECURSIVE Terms(_)
                                Terms(S) == IF S = {} THEN <<>> ELSE LET h == CHOOSE h \in S : TRUE IN
                                              Var(1, YIdx(ix[1], ix[2] * K + h[1], h[2])) \o Terms(S \ {h})
                            IN Terms(hs)])

\* number of windows covering each pixel = fold(unfold(1))
CoverCount(xs, g) ==
  LET sp == SubSeq(xs, 3, Len(xs))  osz == OutSizes(sp, g)  K == KProd(g)  L == Prod(osz) IN
  [q \in 1..Prod(xs) |-> LET ix == Unravel(q - 1, xs) IN
     Cardinality({<<jj, l>> \in (0..(K - 1)) \X (0..(L - 1)) : WinSrc(sp, g, Unravel(l, osz), Unravel(jj, g.k)) = <<SubSeq(ix, 3, Len(ix))>>})]

\* ---------------------------------------------------------------------------
\* convolution (cross-correlation): x (N, C, *sp), w (Co, C, *k), optional bias (Co,)
F_conv(xs, ws, hasBias, g) ==
  LET na == NAx(g) IN
  IF Len(xs) # na + 2 \/ Len(ws) # na + 2 THEN Bad
  ELSE LET N == xs[1]  C == xs[2]  sp == SubSeq(xs, 3, Len(xs))  Co == ws[1] IN
    IF ws[2] # C \/ SubSeq(ws, 3, Len(ws)) # g.k \/ ~GeomOK(sp, g) THEN Bad
    ELSE
      LET osz == OutSizes(sp, g)  K == KProd(g)
          os == <<N, Co>> \o osz
      IN PolyForm(os, [q \in 1..Prod(os) |->
           LET ix == Unravel(q - 1, os)  n == ix[1]  co == ix[2]  o == SubSeq(ix, 3, Len(ix))
               Term(c, jj) == LET j == Unravel(jj, g.k)  src == WinSrc(sp, g, o, j) IN
                              IF src = <<>> THEN <<>>
                              ELSE <<Mono(Q1, <<<<1, Ravel(<<n, c>> \o src[1], xs) + 1, 1>>, <<2, Ravel(<<co, c>> \o j, ws) + 1, 1>>>>)>>
           IN Flatten([cj \in 1..(C * K) |-> Term((cj - 1) \div K, (cj - 1) % K)]) \o (IF hasBias THEN Var(3, co + 1) ELSE <<>>)])

\* linear: x (N, in) @ w (out, in)^T + b (out,)
F_linear(xs, ws, hasBias) ==
  IF Len(xs) # 2 \/ Len(ws) # 2 THEN Bad
  ELSE IF xs[2] # ws[2] THEN Bad
  ELSE LET os == <<xs[1], ws[1]>> IN
       PolyForm(os, [q \in 1..Prod(os) |-> LET ix == Unravel(q - 1, os) IN
                       [t \in 1..xs[2] |-> Mono(Q1, <<<<1, Ravel(<<ix[1], t - 1>>, xs) + 1, 1>>, <<2, Ravel(<<ix[2], t - 1>>, ws) + 1, 1>>>>)]
                       \o (IF hasBias THEN Var(3, ix[2] + 1) ELSE <<>>)])

\* pooling windows of x (N, C, *sp): for each output element the in-image source indices (padding excluded)
PoolGroups(xs, g) ==
  LET sp == SubSeq(xs, 3, Len(xs))  osz == OutSizes(sp, g)  K == KProd(g)  os == <<xs[1], xs[2]>> \o osz IN
  [q \in 1..Prod(os) |->
     LET ix == Unravel(q - 1, os)  o == SubSeq(ix, 3, Len(ix))
         one(jj) == LET src == WinSrc(sp, g, o, Unravel(jj, g.k)) IN IF src = <<>> THEN <<>> ELSE <<Ravel(<<ix[1], ix[2]>> \o src[1], xs) + 1>>
     IN Flatten([jj \in 1..K |-> one(jj - 1)])]
PoolShape(xs, g) == <<xs[1], xs[2]>> \o OutSizes(SubSeq(xs, 3, Len(xs)), g)
PoolOK(xs, g) == Len(xs) = NAx(g) + 2 /\ GeomOK(SubSeq(xs, 3, Len(xs)), g)
PoolPadUsual(g) == \A a \in 1..NAx(g) : 2 * g.p[a] <= g.k[a]      \* PyTorch insists on it; synapgrad's docstrings do not

\* padding never wins the max (it is -infinity); padded zeros ARE counted by the average (divisor = kernel size)
F_maxpool(xs, g) == IF ~PoolOK(xs, g) THEN Bad ELSE [ok |-> TRUE, kind |-> "ext", shape |-> PoolShape(xs, g), grp |-> PoolGroups(xs, g), mx |-> TRUE]
F_avgpool(xs, g) ==
  IF ~PoolOK(xs, g) THEN Bad
  ELSE LET G == PoolGroups(xs, g) IN
       PolyForm(PoolShape(xs, g), [q \in 1..Len(G) |-> [t \in 1..Len(G[q]) |-> Mono(<<1, KProd(g)>>, <<<<1, G[q][t], 1>>>>)]])

\* ---------------------------------------------------------------------------
\* design-level facts checked by TLC on the geometry grid
\* <im2col(x), y> = <x, col2im(y)> for basis x, y: entry (q, i) of the incidence of im2col equals entry (i, q) of col2im
Adjoint(xs, g) ==
  LET A == F_im2col(xs, g, "unfold", Q0)
      B == F_col2im(A.shape, SubSeq(xs, 3, Len(xs)), g, "unfold")
      Uses(poly, i) == Len(SelectSeq(poly, LAMBDA m : m.f # <<>> /\ m.f[1][2] = i))
  IN A.ok => /\ B.ok /\ B.shape = xs
             /\ \A q \in 1..Len(A.el) : \A i \in 1..Len(B.el) : Uses(A.el[q], i) = Uses(B.el[i], q)
\* fold(unfold(1)) multiplies each pixel by the number of windows covering it
FoldUnfoldCount(xs, g) ==
  LET A == F_im2col(xs, g, "unfold", Q0) IN
  A.ok => LET B == F_col2im(A.shape, SubSeq(xs, 3, Len(xs)), g, "unfold") IN
          \A i \in 1..Len(B.el) : Len(B.el[i]) = CoverCount(xs, g)[i]
=============================================================================
