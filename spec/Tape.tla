-------------------------------- MODULE Tape --------------------------------
(***************************************************************************)
(* The structural core of synapgrad's autograd, value-free: which tensors   *)
(* exist, their operands, requires_grad / backward-function flags, and the  *)
(* discipline of a backward sweep.  It is the specification against which   *)
(* executions RECORDED from the real library (the repository's own tests,   *)
(* training loops, random programs over the whole op catalogue) are         *)
(* validated by TLC (TapeTrace.tla).  Values are covered by Autograd.tla /  *)
(* the case machines; here the properties are                                *)
(*   C07  a result requires grad iff grad mode is on and an operand does;    *)
(*        only results that require grad own a backward function;            *)
(*        backward() is refused on tensors that do not require grad;         *)
(*        after the sweep leaves keep their gradient, interior results       *)
(*        (other than the root) release theirs unless retained;              *)
(*   C03  within one backward call every reachable backward function runs    *)
(*        exactly once and only after those of all its consumers.            *)
(***************************************************************************)
EXTENDS Integers, Sequences, FiniteSets, TLC

VARIABLES nodes,    \* function: tensor id -> [ch, rg, fn, ret]
          sweep     \* <<>> or <<[root, todo, done]>>
tvars0 == <<nodes, sweep>>

Ids == DOMAIN nodes
Known(S) == {c \in S : c \in Ids}

TapeInit == nodes = <<>> /\ sweep = <<>>

\* C07: the result of an operation requires grad exactly when grad mode is on and some operand requires grad
\* (r: function operand -> requires_grad)
ResultRG(gm, r) == gm /\ \E k \in DOMAIN r : r[k]
\* the rule as a table over K operands (handed to the catalogue drivers: every operation of the API, not only the
\* operators of recorded programs, is held to it)
FlagTable(K) == {[gm |-> gm, rg |-> r, out |-> ResultRG(gm, r)] : gm \in BOOLEAN, r \in [1..K -> BOOLEAN]}

\* a tensor is created: leaf / constant (ch = {}) or the result of an operation
New(id, ch, rg, gm) ==
  /\ id \notin Ids
  /\ (ch # {} /\ Known(ch) = ch) => (rg = ResultRG(gm, [c \in ch |-> nodes[c].rg]))
  /\ nodes' = [i \in Ids \cup {id} |-> IF i = id THEN [ch |-> Known(ch), rg |-> rg, fn |-> FALSE, ret |-> FALSE] ELSE nodes[i]]
  /\ UNCHANGED sweep

\* a backward function is attached: only to results that require grad
AttachFn(id) ==
  /\ id \in Ids /\ nodes[id].rg
  /\ nodes' = [nodes EXCEPT ![id].fn = TRUE]
  /\ UNCHANGED sweep

SetRG(id, b) ==
  /\ id \in Ids /\ ~(nodes[id].rg /\ nodes[id].fn)       \* only leaves
  /\ nodes' = [nodes EXCEPT ![id].rg = b]
  /\ UNCHANGED sweep

Retain(id) ==
  /\ id \in Ids /\ nodes[id].rg
  /\ nodes' = [nodes EXCEPT ![id].ret = TRUE]
  /\ UNCHANGED sweep

RECURSIVE ReachFn(_)
ReachFn(n) == IF ~nodes[n].fn THEN {} ELSE {n} \cup UNION {ReachFn(c) : c \in nodes[n].ch}
ReachSrc(root) ==
  IF nodes[root].rg /\ ~nodes[root].fn THEN {root}
  ELSE {l \in Ids : nodes[l].rg /\ ~nodes[l].fn /\ \E m \in ReachFn(root) : l \in nodes[m].ch}

BackwardBegin(root) ==
  /\ sweep = <<>> /\ root \in Ids
  /\ nodes[root].rg                                       \* refused otherwise
  /\ sweep' = <<[root |-> root, todo |-> ReachFn(root), done |-> {}]>>
  /\ UNCHANGED nodes

Ready(n) == \A m \in ReachFn(sweep[1].root) : (n \in nodes[m].ch) => m \notin sweep[1].todo

\* one backward function runs: exactly once, after all its consumers
RunFn(n) ==
  /\ sweep # <<>> /\ n \in sweep[1].todo /\ Ready(n)
  /\ sweep' = <<[sweep[1] EXCEPT !.todo = @ \ {n}, !.done = @ \cup {n}]>>
  /\ UNCHANGED nodes

\* the call returns: every function ran; `withgrad` = tensors (among those the sweep touched) that hold a gradient now;
\* rm = retain-all mode during the call
BackwardEnd(withgrad, rm) ==
  /\ sweep # <<>> /\ sweep[1].todo = {}
  /\ LET root == sweep[1].root
         R == ReachFn(root)
         S == ReachSrc(root)
     IN /\ S \subseteq withgrad                                                        \* leaves keep their gradient
        /\ \A n \in R \ {root} : (~nodes[n].ret /\ ~rm) => n \notin withgrad           \* interior results release theirs
        /\ \A n \in R \ {root} : nodes[n].ret => n \in withgrad                        \* unless marked with retain_grad
        /\ \A n \in withgrad : nodes[n].rg                                             \* a tensor that does not require grad never acquires one
  /\ sweep' = <<>>
  /\ UNCHANGED nodes

\* structural invariants of the tape
FnIffRg == \A n \in Ids : nodes[n].fn => nodes[n].rg
OperandsOlder == \A n \in Ids : \A c \in nodes[n].ch : c < n
=============================================================================
